import SmtpV.Model.Parse
import SmtpV.Spec.Rfc5321
/-!
# C11 — MAIL/RCPT arguments reach the backend exactly as sent, or are refused

Model level (`Parse.parsePath` and friends; tied to parse.go by the `parse` correspondence, judged on the
implementation by the reference grammar `Spec.Rfc5321`).  Proved here: on the class of paths every real client
sends — `<local@domain>` with a dot-string local part — the parser returns exactly that mailbox and leaves exactly
what follows the closing bracket (the parameters); and a special character in an unquoted local part refuses the
whole command.  Quoted local parts, source routes and the parameter values are decided by the reference-grammar
judge and the correspondence (four leniencies of the parser are known findings).
-/
namespace SmtpV.Props.C11
open SmtpV SmtpV.Text SmtpV.Parse

/-- octets allowed in an unquoted local part here: anything but `@` and the specials the parser stops at -/
def lpOk (b : Byte) : Bool := !(b == 64) && !isDotStringStop b

/-- octets of a domain as the parser delimits it: anything but SP, HT and `>` -/
def domOk (b : Byte) : Bool := !(b == SP || b == HT || b == 62)

theorem parseDotString_lp (lp t acc : Bytes) (h : lp.all lpOk = true) :
    parseDotString (lp ++ 64 :: t) acc = some (acc.reverse ++ lp, 64 :: t) := by
  induction lp generalizing acc with
  | nil => simp [parseDotString]
  | cons c lp ih =>
    simp only [List.all_cons, Bool.and_eq_true] at h
    have hc := h.1
    simp only [lpOk, Bool.and_eq_true, Bool.not_eq_true'] at hc
    simp only [List.cons_append, parseDotString, hc.1, hc.2, Bool.false_eq_true, if_false]
    rw [ih _ h.2]
    simp

theorem takeWhile_dom (dom rest : Bytes) (h : dom.all domOk = true) :
    (dom ++ 62 :: rest).takeWhile (fun ch => !(ch == SP || ch == HT || ch == 62)) = dom ∧
    (dom ++ 62 :: rest).dropWhile (fun ch => !(ch == SP || ch == HT || ch == 62)) = 62 :: rest := by
  induction dom with
  | nil => simp
  | cons c dom ih =>
    simp only [List.all_cons, Bool.and_eq_true] at h
    have hc : (!(c == SP || c == HT || c == 62)) = true := h.1
    obtain ⟨i1, i2⟩ := ih h.2
    simp only [List.cons_append, List.takeWhile_cons, List.dropWhile_cons, hc, if_true, i1, i2, and_self]

/-- no source route: the path does not start with `@` -/
theorem route_none (s1 : Bytes) (h : ∀ t, s1 ≠ 64 :: t) : stripRoute s1 = some s1 := by
  unfold stripRoute
  split
  · rename_i t; exact absurd rfl (h t)
  · rfl

/-- **C11_exact_mailbox.**  `<local@domain>` with a non-empty dot-string local part and a non-empty domain that does
    not end in `@`: the parser returns exactly `local@domain` and leaves exactly what follows `>`. -/
theorem C11_exact_mailbox (lp dom rest : Bytes) (hlp : lp ≠ []) (hlpok : lp.all lpOk = true)
    (hdom : dom ≠ []) (hdomok : dom.all domOk = true) (hlast : dom.getLast? ≠ some 64) :
    parsePath ([60] ++ lp ++ [64] ++ dom ++ [62] ++ rest) = some (lp ++ [64] ++ dom, rest) := by
  obtain ⟨c, lp', rfl⟩ : ∃ c lp', lp = c :: lp' := by
    cases lp with
    | nil => exact absurd rfl hlp
    | cons c t => exact ⟨c, t, rfl⟩
  have hc : lpOk c = true := by simp only [List.all_cons, Bool.and_eq_true] at hlpok; exact hlpok.1
  have hc64 : (c == 64) = false := by simp only [lpOk, Bool.and_eq_true, Bool.not_eq_true'] at hc; exact hc.1
  have hc34 : c ≠ 34 := by
    intro e; subst e
    simp [lpOk, isDotStringStop] at hc
  have hc64' : c ≠ 64 := by simpa using hc64
  have hshape : [60] ++ (c :: lp') ++ [64] ++ dom ++ [62] ++ rest = 60 :: c :: (lp' ++ 64 :: (dom ++ 62 :: rest)) := by simp
  rw [hshape]
  have hds := parseDotString_lp (c :: lp') (dom ++ 62 :: rest) [] hlpok
  simp only [List.cons_append, List.reverse_nil, List.nil_append] at hds
  obtain ⟨t1, t2⟩ := takeWhile_dom dom rest hdomok
  have hsuf : hasSuffix (c :: lp' ++ [64] ++ dom) [64] = false := by
    unfold hasSuffix
    obtain ⟨d, dl, hd⟩ : ∃ d dl, dom = dl ++ [d] := by
      have := List.dropLast_concat_getLast hdom
      exact ⟨dom.getLast hdom, dom.dropLast, this.symm⟩
    have hd64 : d ≠ 64 := by
      intro e; apply hlast; rw [hd, e]; simp
    rw [hd]
    simp [List.isPrefixOf, Ne.symm hd64]
  have hlocal : parseLocalPart (c :: (lp' ++ 64 :: (dom ++ 62 :: rest))) = some (c :: lp', 64 :: (dom ++ 62 :: rest)) := by
    unfold parseLocalPart
    split
    · rename_i t heq
      cases heq; exact absurd rfl hc34
    · exact hds
  have hmb : parseMailbox (c :: (lp' ++ 64 :: (dom ++ 62 :: rest))) = some (c :: lp' ++ [64] ++ dom, 62 :: rest) := by
    unfold parseMailbox
    simp only [hlocal, List.isEmpty_cons, Bool.false_eq_true, if_false, t1, t2, hsuf]
  have hne : ∀ t, c :: (lp' ++ 64 :: (dom ++ 62 :: rest)) ≠ 64 :: t := by
    intro t e; cases e; exact hc64' rfl
  have hroute := route_none (c :: (lp' ++ 64 :: (dom ++ 62 :: rest))) hne
  simp only [parsePath, hroute, hmb]
  simp

theorem parseDotString_stop (a t acc : Bytes) (c : Byte) (ha : a.all lpOk = true) (hc : isDotStringStop c = true) :
    parseDotString (a ++ c :: t) acc = none := by
  induction a generalizing acc with
  | nil =>
    have h64 : (c == 64) = false := by
      cases h : c == 64 with
      | false => rfl
      | true => have : c = 64 := by simpa using h
                subst this; simp [isDotStringStop, SP, HT] at hc
    simp [parseDotString, h64, hc]
  | cons x a ih =>
    simp only [List.all_cons, Bool.and_eq_true] at ha
    have hx := ha.1
    simp only [lpOk, Bool.and_eq_true, Bool.not_eq_true'] at hx
    simp only [List.cons_append, parseDotString, hx.1, hx.2, Bool.false_eq_true, if_false]
    exact ih _ ha.2

/-- **C11_special_refused.**  A special character (one of `( ) < > [ ] : ; \ , "` SP HT) inside an unquoted local part:
    the path — and with it the command — is refused, whatever follows. -/
theorem C11_special_refused (a t : Bytes) (c : Byte) (ha : a.all lpOk = true) (hc : isDotStringStop c = true)
    (hq : a ≠ [] ∨ c ≠ 34) : parsePath ([60] ++ a ++ [c] ++ t) = none := by
  have hshape : [60] ++ a ++ [c] ++ t = 60 :: (a ++ c :: t) := by simp
  rw [hshape]
  have hhead : ∀ x r, a ++ c :: t = x :: r → x ≠ 64 ∧ x ≠ 34 := by
    intro x r hx
    cases a with
    | nil =>
      simp only [List.nil_append, List.cons.injEq] at hx
      obtain ⟨rfl, _⟩ := hx
      refine ⟨?_, ?_⟩
      · intro e; subst e; simp [isDotStringStop, SP, HT] at hc
      · rcases hq with h | h
        · exact absurd rfl h
        · exact h
    | cons y a' =>
      simp only [List.cons_append, List.cons.injEq] at hx
      obtain ⟨rfl, _⟩ := hx
      simp only [List.all_cons, Bool.and_eq_true] at ha
      have hy := ha.1
      simp only [lpOk, Bool.and_eq_true, Bool.not_eq_true'] at hy
      refine ⟨by simpa using hy.1, ?_⟩
      intro e; subst e; simp [isDotStringStop] at hy
  have hlocal : parseLocalPart (a ++ c :: t) = none := by
    unfold parseLocalPart
    split
    · rename_i r heq
      exact absurd rfl (hhead 34 r heq).2
    · exact parseDotString_stop a t [] c ha hc
  have hmb : parseMailbox (a ++ c :: t) = none := by simp [parseMailbox, hlocal]
  have hroute := route_none (a ++ c :: t) (fun r e => (hhead 64 r e).1 rfl)
  simp only [parsePath, hroute, hmb]

/-- the null reverse-path -/
theorem C11_null_sender (rest : Bytes) : parseReversePath ([60, 62] ++ rest) = some ([], rest) := by
  simp [parseReversePath, hasPrefix, List.isPrefixOf, show "<>".b = [60, 62] by decide +kernel]

/-! ### non-vacuity -/

example : parsePath "<first.last+tag@mail.example.org> SIZE=5".b = some ("first.last+tag@mail.example.org".b, " SIZE=5".b) := by
  decide +kernel

example : parsePath "<a b@c>".b = none := by decide +kernel

/-! ### quoted local parts -/

/-- the quoted-string body that stands for the octets `s`: backslash and double quote escaped by a backslash
    (any octet may be written as a quoted-pair; this is the minimal form) -/
def quote (s : Bytes) : Bytes := s.flatMap (fun b => if b == 92 || b == 34 then [92, b] else [b])

theorem quote_cons_esc (b : Byte) (s : Bytes) (h : b = 92 ∨ b = 34) : quote (b :: s) = 92 :: b :: quote s := by
  rcases h with rfl | rfl <;> rfl

theorem quote_cons_plain (b : Byte) (s : Bytes) (h1 : b ≠ 92) (h2 : b ≠ 34) : quote (b :: s) = b :: quote s := by
  have : (b == 92 || b == 34) = false := by simp [h1, h2]
  simp only [quote, List.flatMap_cons, this, Bool.false_eq_true, if_false, List.singleton_append]

theorem parseQuoted_quote (s rest acc : Bytes) :
    parseQuoted (quote s ++ 34 :: rest) acc = some (acc.reverse ++ s, rest) := by
  induction s generalizing acc with
  | nil =>
    show parseQuoted (34 :: rest) acc = _
    rw [parseQuoted.eq_def]
    simp
  | cons b s ih =>
    by_cases h92 : b = 92
    · subst h92
      rw [quote_cons_esc _ _ (Or.inl rfl)]
      show parseQuoted (92 :: 92 :: (quote s ++ 34 :: rest)) acc = _
      rw [parseQuoted]
      simp only [beq_self_eq_true, if_true]
      rw [ih]; simp
    · by_cases h34 : b = 34
      · subst h34
        rw [quote_cons_esc _ _ (Or.inr rfl)]
        show parseQuoted (92 :: 34 :: (quote s ++ 34 :: rest)) acc = _
        rw [parseQuoted]
        simp only [beq_self_eq_true, if_true]
        rw [ih]; simp
      · rw [quote_cons_plain b s h92 h34]
        show parseQuoted (b :: (quote s ++ 34 :: rest)) acc = _
        have e1 : (b == 92) = false := by simpa using h92
        have e2 : (b == 34) = false := by simpa using h34
        rw [parseQuoted.eq_def]
        simp only [e1, e2, Bool.false_eq_true, if_false]
        rw [ih]; simp

/-- **C11_quoted_exact.**  `<"…"@domain>` with any local part written as a quoted-string (backslash and quote escaped): the
    parser returns exactly the unescaped local part, `@`, the domain — and leaves exactly what follows `>`. -/
theorem C11_quoted_exact (lp dom rest : Bytes) (hlp : lp ≠ []) (hdom : dom ≠ []) (hdomok : dom.all domOk = true)
    (hlast : dom.getLast? ≠ some 64) :
    parsePath ([60, 34] ++ quote lp ++ [34, 64] ++ dom ++ [62] ++ rest) = some (lp ++ [64] ++ dom, rest) := by
  have hshape : [60, 34] ++ quote lp ++ [34, 64] ++ dom ++ [62] ++ rest = 60 :: 34 :: (quote lp ++ 34 :: (64 :: (dom ++ 62 :: rest))) := by simp
  rw [hshape]
  obtain ⟨t1, t2⟩ := takeWhile_dom dom rest hdomok
  have hlocal : parseLocalPart (34 :: (quote lp ++ 34 :: (64 :: (dom ++ 62 :: rest)))) = some (lp, 64 :: (dom ++ 62 :: rest)) := by
    unfold parseLocalPart
    simp only [parseQuoted_quote]
    simp
  have hsuf : hasSuffix (lp ++ [64] ++ dom) [64] = false := by
    unfold hasSuffix
    obtain ⟨d, dl, hd⟩ : ∃ d dl, dom = dl ++ [d] := by
      have := List.dropLast_concat_getLast hdom
      exact ⟨dom.getLast hdom, dom.dropLast, this.symm⟩
    have hd64 : d ≠ 64 := by
      intro e; apply hlast; rw [hd, e]; simp
    rw [hd]
    simp [List.isPrefixOf, Ne.symm hd64]
  have hie : lp.isEmpty = false := by cases lp with | nil => exact absurd rfl hlp | cons _ _ => rfl
  have hmb : parseMailbox (34 :: (quote lp ++ 34 :: (64 :: (dom ++ 62 :: rest)))) = some (lp ++ [64] ++ dom, 62 :: rest) := by
    unfold parseMailbox
    simp only [hlocal, hie, Bool.false_eq_true, if_false, t1, t2, hsuf]
  have hroute := route_none (34 :: (quote lp ++ 34 :: (64 :: (dom ++ 62 :: rest)))) (by intro t e; cases e)
  simp only [parsePath, hroute, hmb]
  simp

example : parsePath "<\"a\\\"b\\\\\"@example.org> SIZE=1".b = some ("a\"b\\@example.org".b, " SIZE=1".b) := by decide +kernel

end SmtpV.Props.C11
