import SmtpV.Model.Server
import SmtpV.Spec.Monitors
/-!
# C03 — backend callbacks follow RFC 5321 transaction order (work in progress: theorems follow)
-/
namespace SmtpV.Props.C03
end SmtpV.Props.C03
