import SmtpV.Proofs.ServerHandlers
import SmtpV.Proofs.Projections
/-!
# C03 — callbacks follow transaction order; envelopes never leak
# C08 — each session is logged out exactly once; nothing runs after the end

Both are statements about the backend-visible trace of a whole connection.  The server model
(`Server.serve`: greeting, command loop over an arbitrary octet stream in arbitrary segments, every handler,
panic recovery, deferred Close; tied to conn.go/server.go by the `conv` correspondence) is proved to produce only
traces the ordering monitor accepts — for EVERY input, EVERY backend script and EVERY configuration — and the
monitors that judge the implementation's traces (`Mon.check3`, `Mon.check8`) are proved to be projections of it.
-/
namespace SmtpV.Props.C03
open SmtpV SmtpV.Spec SmtpV.Spec.Order SmtpV.Spec.Mon SmtpV.Server

/-- a connection that has not done anything yet: no events, no session, nothing of an envelope -/
structure Fresh (s : S) : Prop where
  evs : s.evs = []
  session : s.c.session = none
  closed : s.c.closed = false
  nextSess : s.c.nextSess = 0
  fromReceived : s.c.fromReceived = false
  bdat : s.c.bdat = none
  recipients : s.c.recipients = []
  didAuth : s.c.didAuth = false

theorem fresh_good (s : S) (h : Fresh s) : Good (abs s.c) s := by
  refine ⟨by simp [h.evs, Order.run], ?_⟩
  exact ⟨fun hc => by simp [h.closed] at hc, fun _ hf => by simp [h.fromReceived] at hf,
    fun hb => by simp [h.bdat] at hb, fun _ _ => ⟨h.recipients, h.didAuth⟩⟩

/-- **order_accepts_every_connection.**  Whatever octets arrive in whatever segments, whatever the backend answers
    (refusals, errors, panics, early returns) and whatever the configuration: the complete trace of the connection is
    accepted by the ordering monitor, the connection ends closed and nobody is left logged in. -/
theorem order_accepts_every_connection (s : S) (h : Fresh s) :
    Order.check s.cfg (abs s.c) (serve s).evs.reverse = [] := by
  obtain ⟨hg, hcfg, hcl, hss⟩ := serve_good (fresh_good s h)
  unfold Order.check
  rw [← hcfg, hg.tr]
  simp [Order.fin, abs, hcl, hss]

/-- the initial abstraction of a fresh connection: C03's and C08's monitors start from their initial states -/
theorem fresh_R3 (s : S) (h : Fresh s) : R3 (abs s.c) {} := by
  unfold R3; simp [abs, h.session]

theorem fresh_p8 (s : S) (h : Fresh s) : p8 (abs s.c) = {} := by
  simp [p8, abs, h.session, h.closed, h.nextSess]

/-- **C03_order.**  On every connection the backend sees Mail only in a session created by a greeting, Rcpt only
    after an accepted Mail of the same transaction and within the recipient limit, Data only after an accepted Rcpt
    and once per transaction, and nothing of a transaction after its transfer began until it was reset — the very
    judge applied to the implementation's traces accepts every trace of the model. -/
theorem C03_order (s : S) (h : Fresh s) : Mon.check3 s.cfg (serve s).evs.reverse = [] := by
  obtain ⟨hg, hcfg, _, _⟩ := serve_good (fresh_good s h)
  unfold Mon.check3
  exact sim3 s.cfg _ _ _ {} (by rw [← hcfg]; exact hg.tr) (fresh_R3 s h)

/-- **C08_lifecycle.**  Every session is logged out exactly once, no callback or write happens on a session after its
    Logout or after the connection was closed, the connection is closed exactly once and at the end nobody is logged in. -/
theorem C08_lifecycle (s : S) (h : Fresh s) : Mon.check8 (serve s).evs.reverse = [] := by
  obtain ⟨hg, hcfg, hcl, hss⟩ := serve_good (fresh_good s h)
  unfold Mon.check8
  have := sim8 s.cfg (serve s).evs.reverse (abs s.c) (abs (serve s).c) (by rw [← hcfg]; exact hg.tr)
  rw [fresh_p8 s h] at this
  rw [this]
  simp [fin8, p8, abs, hcl, hss]

/-! ### the trace the driver prints (and the harness records) has no `cmd` / `tlsStart` events: dropping them changes
nothing for these two judges -/

def visible (e : Ev) : Bool := match e with | .cmd _ => false | .tlsStart _ => false | _ => true

theorem runMon_filter {σ : Type} (step : σ → Ev → Except String σ) (fin : σ → List String)
    (hid : ∀ m e, visible e = false → step m e = .ok m ∨ ∃ r, step m e = .error r) :
    ∀ (evs : List Ev) (m : σ), runMon step fin m evs = [] → runMon step fin m (evs.filter visible) = [] := by
  intro evs
  induction evs with
  | nil => intro m h; exact h
  | cons e t ih =>
    intro m h
    simp only [runMon] at h
    by_cases hv : visible e = true
    · simp only [List.filter_cons, hv, if_true, runMon]
      cases hs : step m e with
      | error r => simp [hs] at h
      | ok m' => simp only [hs] at h ⊢; exact ih m' h
    · have hv' : visible e = false := by simpa using hv
      simp only [List.filter_cons, hv', Bool.false_eq_true, if_false]
      rcases hid m e hv' with hok | ⟨r, herr⟩
      · rw [hok] at h; exact ih m h
      · rw [herr] at h; simp at h

theorem C03_order_visible (s : S) (h : Fresh s) : Mon.check3 s.cfg ((serve s).evs.reverse.filter visible) = [] := by
  unfold Mon.check3
  apply runMon_filter
  · intro m e hv
    cases e <;> simp [visible] at hv <;> exact Or.inl rfl
  · exact C03_order s h

theorem C08_lifecycle_visible (s : S) (h : Fresh s) : Mon.check8 ((serve s).evs.reverse.filter visible) = [] := by
  unfold Mon.check8
  apply runMon_filter
  · intro m e hv
    cases e <;> simp [visible] at hv
    all_goals
      simp only [step8]
      split
      · exact Or.inr ⟨_, rfl⟩
      · exact Or.inl rfl
  · exact C08_lifecycle s h

/-! ### non-vacuity: a fresh connection exists for every configuration, input and backend -/

example (cfg : Cfg) (w : Wire.W) (be : Backend) : Fresh { cfg := cfg, w := w, be := be } :=
  ⟨rfl, rfl, rfl, rfl, rfl, rfl, rfl, rfl⟩

end SmtpV.Props.C03
