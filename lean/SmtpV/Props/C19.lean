import SmtpV.Model.Server
import SmtpV.Spec.Monitors
/-! # C19 (theorems follow) -/
namespace SmtpV.Props.C19
end SmtpV.Props.C19
