import SmtpV.Model.Wire
import SmtpV.Spec.Monitors
import SmtpV.Proofs.DataResume
/-!
# C19 — hostile input is bounded (line-length limiter)

Proved here: the counting rule of `lineLimitReader.Read` never trips on input whose lines are within
the maximum — for every way the network cuts the stream into reads — and does trip on a line that is
more than one octet longer.  The remaining clauses (no recovered panic, error threshold, nothing of an
over-long line reaches the backend) are judged by `Spec.Mon.check19` on hostile conversations and tied
by the correspondence with the server model; their theorems are work in progress.
-/
namespace SmtpV.Props.C19
open SmtpV SmtpV.Wire

theorem countLoop_append (limit cur : Nat) (a b : Bytes) :
    countLoop limit cur (a ++ b) =
      (if (countLoop limit cur a).2 then countLoop limit cur a else countLoop limit (countLoop limit cur a).1 b) := by
  induction a generalizing cur with
  | nil => simp [countLoop]
  | cons x a ih =>
    simp only [List.cons_append, countLoop]
    by_cases h : bump cur x > limit
    · simp [h]
    · simp only [h, if_false]; exact ih _

theorem bump_nonLF (cur : Nat) (b : Byte) (h : b ≠ LF) : bump cur b = cur + 1 := by
  have : (b == LF) = false := by simpa using h
  simp [bump, this]

/-- the counter over the content of a line (no LF inside): it just grows -/
theorem countLoop_content (limit cur : Nat) (content : Bytes) (hno : ∀ b ∈ content, b ≠ LF)
    (h : cur + content.length ≤ limit) : countLoop limit cur content = (cur + content.length, false) := by
  induction content generalizing cur with
  | nil => simp [countLoop]
  | cons b t ih =>
    simp only [countLoop, bump_nonLF cur b (hno b (by simp))]
    have : ¬ cur + 1 > limit := by simp at h; omega
    simp only [this, if_false]
    rw [ih (cur + 1) (fun x hx => hno x (by simp [hx])) (by simp at h ⊢; omega)]
    simp; omega

/-- one whole line within the maximum, from any counter value a line start can have -/
theorem countLoop_line (limit cur : Nat) (content : Bytes) (hno : ∀ b ∈ content, b ≠ LF) (hc : cur ≤ 1)
    (hlen : content.length + 1 ≤ limit) : countLoop limit cur (content ++ [LF]) = (1, false) := by
  rw [countLoop_append, countLoop_content limit cur content hno (by omega)]
  simp [countLoop, bump]
  omega

/-- a whole stream of lines within the maximum -/
theorem countLoop_lines (limit : Nat) (lines : List Bytes) (cur : Nat) (hc : cur ≤ 1)
    (h : ∀ l ∈ lines, (∀ b ∈ l, b ≠ LF) ∧ l.length + 1 ≤ limit) :
    (countLoop limit cur (lines.flatMap (fun l => l ++ [LF]))).2 = false := by
  induction lines generalizing cur with
  | nil => simp [countLoop]
  | cons l t ih =>
    obtain ⟨hno, hlen⟩ := h l (by simp)
    simp only [List.flatMap_cons]
    rw [countLoop_append, countLoop_line limit cur l hno hc hlen]
    simp only [Bool.false_eq_true, if_false]
    exact ih 1 (Nat.le_refl _) (fun x hx => h x (by simp [hx]))

/-- the limiter's state over successive raw reads (`chunks`): final counter and whether it tripped -/
def feed (limit : Nat) : Nat → List Bytes → Nat × Bool
  | cur, [] => (cur, false)
  | cur, c :: t =>
    match countLoop limit cur c with
    | (c', true) => (c', true)
    | (c', false) => feed limit c' t

theorem feed_flatten (limit cur : Nat) (chunks : List Bytes) :
    (feed limit cur chunks).2 = (countLoop limit cur chunks.flatten).2 := by
  induction chunks generalizing cur with
  | nil => simp [feed, countLoop]
  | cons c t ih =>
    simp only [feed, List.flatten_cons]
    rw [countLoop_append]
    cases hc : countLoop limit cur c with
    | mk c' trip =>
      cases trip
      · simp [ih]
      · simp

/-- **C19_short_lines_ok.**  Input all of whose lines (LF included) are within the maximum is never
    refused for its length, however the network segments it. -/
theorem C19_short_lines_ok (limit : Nat) (lines : List Bytes) (chunks : List Bytes)
    (hseg : chunks.flatten = lines.flatMap (fun l => l ++ [LF]))
    (h : ∀ l ∈ lines, (∀ b ∈ l, b ≠ LF) ∧ l.length + 1 ≤ limit) :
    (feed limit 0 chunks).2 = false := by
  rw [feed_flatten, hseg]
  exact countLoop_lines limit lines 0 (by omega) h

/-- **C19_long_line_trips.**  A line whose content (no LF inside) takes the counter beyond the maximum
    trips the limiter before the end of the line is seen — so a line more than one octet longer than the
    maximum (CRLF included) is refused wherever it starts (the counter is at most 1 at a line start). -/
theorem C19_long_line_trips (limit : Nat) (content rest : Bytes) (cur : Nat) (hno : ∀ b ∈ content, b ≠ LF)
    (hc : cur ≤ limit) (hlen : cur + content.length > limit) : (countLoop limit cur (content ++ rest)).2 = true := by
  induction content generalizing cur with
  | nil => simp at hlen; omega
  | cons b t ih =>
    simp only [List.cons_append, countLoop, bump_nonLF cur b (hno b (by simp))]
    by_cases h : cur + 1 > limit
    · simp [h]
    · simp only [h, if_false]
      exact ih (cur + 1) (fun x hx => hno x (by simp [hx])) (by omega) (by simp at hlen ⊢; omega)

/-- in numbers: a line of `n ≥ limit + 2` octets (CRLF included) has `n - 1 ≥ limit + 1` octets before its
    LF, which is more than the limiter tolerates from any line start -/
theorem C19_long_line_refused (limit : Nat) (line rest : Bytes) (cur : Nat) (hcur : cur ≤ 1) (hl : 1 ≤ limit)
    (hno : ∀ b ∈ line, b ≠ LF) (hlen : limit + 1 ≤ line.length) :
    (countLoop limit cur (line ++ [LF] ++ rest)).2 = true := by
  rw [List.append_assoc]
  exact C19_long_line_trips limit line _ cur hno (by omega) (by omega)

example : (feed 8 0 ["NOO".b, "P\nRS".b, "ET\n".b]).2 = false := by decide +kernel
example : (feed 8 0 ["NOOPNOOP".b, "X\n".b]).2 = true := by decide +kernel

/-! ### the limit coming back after a BDAT chunk (`lineLimitReader.resume`, repaired in ebe7440 and 9f1d982) -/

/-- **C19_resume_short_ok.**  When the limit is put back after a chunk, whatever the limiter had counted before and during the
    chunk is forgotten: if the octets counted at that moment (`pending`; the server passes none since the length check in `readLine`) together
    with what is read afterwards — in any segmentation — consist of lines within the maximum, nothing is refused for its length.
    (Before the repair a stale count of payload octets made the limiter refuse short commands.) -/
theorem C19_resume_short_ok (w : W) (limit : Nat) (hl : 0 < limit) (pending : Bytes) (lines chunks : List Bytes)
    (hseg : pending ++ chunks.flatten = lines.flatMap (fun l => l ++ [LF]))
    (h : ∀ l ∈ lines, (∀ b ∈ l, b ≠ LF) ∧ l.length + 1 ≤ limit) (ht : w.tripped = false) :
    (resume w limit pending).tripped = false ∧ (feed limit (resume w limit pending).cur chunks).2 = false := by
  have hall := countLoop_lines limit lines 0 (by omega) h
  rw [← hseg, countLoop_append] at hall
  have hne : (limit == 0) = false := by
    cases h0 : limit == 0 with
    | false => rfl
    | true => have : limit = 0 := by simpa using h0
              omega
  unfold resume
  simp only [hne, Bool.false_eq_true, if_false]
  cases hc : countLoop limit 0 pending with
  | mk c' trip =>
    rw [hc] at hall
    cases trip with
    | true => simp at hall
    | false =>
      simp only [Bool.false_eq_true, if_false] at hall
      exact ⟨by simp [ht], by rw [feed_flatten]; exact hall⟩

/-- **C19_resume_counts_pending.**  The beginning of a command line that was read together with the end of a chunk counts: if
    the pending octets (no LF) and the octets of the same line that arrive next exceed the maximum, the limiter trips — at once,
    or in the read that takes the line over the maximum.  (Before the repair these octets were never counted.) -/
theorem C19_resume_counts_pending (w : W) (limit : Nat) (hl : 0 < limit) (pending more rest : Bytes)
    (hno1 : ∀ b ∈ pending, b ≠ LF) (hno2 : ∀ b ∈ more, b ≠ LF) (hlen : pending.length + more.length > limit) :
    (resume w limit pending).tripped = true ∨ (countLoop limit (resume w limit pending).cur (more ++ rest)).2 = true := by
  have hne : (limit == 0) = false := by
    cases h0 : limit == 0 with
    | false => rfl
    | true => have : limit = 0 := by simpa using h0
              omega
  unfold resume
  simp only [hne, Bool.false_eq_true, if_false]
  by_cases hb : pending.length ≤ limit
  · have hc := countLoop_content limit 0 pending hno1 (by omega)
    rw [hc]
    right
    simp only [Nat.zero_add]
    exact C19_long_line_trips limit more rest pending.length hno2 hb (by omega)
  · left
    have := C19_long_line_trips limit pending [] 0 hno1 (by omega) (by omega)
    rw [List.append_nil] at this
    cases hc : countLoop limit 0 pending with
    | mk c' trip =>
      rw [hc] at this
      simp at this
      simp [this]

example : (resume { cur := 77, limit := 0 } 8 "NOOP\r\nNO".b).tripped = false ∧
    (resume { cur := 77, limit := 0 } 8 "NOOP\r\nNO".b).cur = 3 := by decide +kernel
example : (resume { limit := 0 } 8 "NOOPNOOPX".b).tripped = true := by decide +kernel

/-! ### the error threshold and the tripped limiter, on the server model -/
open SmtpV.Server in
/-- **C19_error_threshold.**  A protocol error in a connection that has already counted three of them closes the connection
    (after the error's own reply and the closing notice), whatever the error; and an error counted earlier only adds to the
    count. -/
theorem C19_error_threshold (s : S) (code : Nat) (enh : Spec.Enh) (text : String) :
    (s.c.errCount ≥ 3 → (protocolError s code enh text).c.closed = true) ∧
    (s.c.errCount < 3 → s.c.closed = false → (protocolError s code enh text).c.errCount = s.c.errCount + 1) := by
  unfold protocolError
  simp only []
  have hc : (reply s code enh text).c = s.c := reply_c _ _ _ _
  generalize reply s code enh text = s1 at hc ⊢
  constructor
  · intro h
    have : s1.c.errCount + 1 > errThreshold := by rw [hc]; simp only [errThreshold]; omega
    simp only [this, if_true]
    exact closeConn_closed _
  · intro h _
    have hn : ¬ (s.c.errCount + 1 > errThreshold) := by simp only [errThreshold]; omega
    simp only [hc, hn, if_false]

open SmtpV.Server in
/-- **C19_tripped_ends_commands.**  Once the line limiter has latched, the command loop's next read reports an error: no
    further command is executed on that connection (the loop answers 500 and returns). -/
theorem C19_tripped_ends_commands (w : W) (h : w.tripped = true) : ∃ e, (readLine w).2 = .error e :=
  readLine_tripped w h

end SmtpV.Props.C19

namespace SmtpV.Props.C19
open SmtpV SmtpV.Wire

/-- **C19_line_handed_out_within_limit.**  Whatever was buffered, and however it got there (read while the limit was lifted for a
    BDAT chunk, behind the payload of a pipelined chunk, behind a DATA body or an answer to a challenge): a line that
    `Conn.readLine` hands to the command loop, or to an AUTH exchange, is within the limit in force — its content and its line feed
    are at most `limit` octets.  The length is checked where the line is handed out, so no rule about what may be buffered is
    needed (the look-ahead of ebe7440/8853bc2/ecdb2ac/ab2fa9c, each of which left a hole, is gone). -/
theorem C19_line_handed_out_within_limit (w : W) (l : Bytes) (h : (readLine w).2 = .ok l) :
    (readLine w).1.limit = 0 ∨ l.length + 1 ≤ (readLine w).1.limit := by
  unfold readLine at h ⊢
  simp only [] at h ⊢
  rcases hr : readLineAux (fuelOf w) (fuelOf w) w [] with ⟨w1, r⟩
  rw [hr] at h
  cases r with
  | error e => simp only [] at h; cases h
  | ok l' =>
    simp only [] at h ⊢
    by_cases ht : w1.tripped = true
    · simp only [ht, if_true] at h; cases h
    · simp only [ht, Bool.false_eq_true, if_false] at h ⊢
      by_cases hc : (decide (w1.limit > 0) && decide (l'.length + 1 > w1.limit)) = true
      · simp only [hc, if_true] at h; cases h
      · simp only [hc, Bool.false_eq_true, if_false] at h ⊢
        have e : l' = l := by cases h; rfl
        subst e
        simp only [Bool.and_eq_true, decide_eq_true_eq, not_and, Nat.not_lt] at hc
        by_cases h0 : w1.limit > 0
        · exact Or.inr (by have := hc h0; omega)
        · exact Or.inl (by omega)

/-- a line longer than the limit that sits in the buffer unseen by the raw limiter (limit lifted while it was read) is refused -/
example : (match (readLine { buf := "NOOP xxxxxxxxxxxx\r\nQUIT\r\n".b, limit := 10, tail := .eof }).2 with | .error .tooLong => true | _ => false) = true := by
  decide +kernel
/-- … and one within the limit is handed out -/
example : (match (readLine { buf := "NOOP xxx\r\nQUIT\r\n".b, limit := 10, tail := .eof }).2 with | .ok l => l == "NOOP xxx".b | _ => false) = true := by
  decide +kernel

end SmtpV.Props.C19
