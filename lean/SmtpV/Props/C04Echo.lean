import SmtpV.Model.Server
import SmtpV.Spec.ReplySyntax
/-!
# C04 — what the server quotes from the peer's command in a reply is text a reply line may contain

The replies that quote the peer (the unknown command word, the greeting name, the addresses of MAIL and RCPT, the
`<recipient>` prefix of an LMTP status) pass what they quote through `printable` (conn.go; repaired in the commit recorded in
known_findings.json): whatever octets the peer sent, the text of these replies consists of HT, printable ASCII and octets
≥ 0x80 only — no bare CR, no NUL, no DEL — and a value that was fine already is quoted unchanged.
-/
namespace SmtpV.Props.C04
open SmtpV SmtpV.Text SmtpV.Spec.ReplySyntax

def okByte (b : Byte) : Bool := b == 9 || (32 ≤ b.toNat && b.toNat ≤ 126) || b.toNat ≥ 128

theorem textOk_eq (t : Bytes) : textOk t = t.all okByte := rfl

theorem okByte_printable (b : Byte) : okByte (if (b.toNat < 32 && b != 9) || b == 127 then 63 else b) = true := by
  by_cases h : ((b.toNat < 32 && b != 9) || b == 127) = true
  · simp only [h, if_true]; decide
  · simp only [h, Bool.false_eq_true, if_false]
    simp only [Bool.or_eq_true, Bool.and_eq_true, decide_eq_true_eq, bne_iff_ne, ne_eq, beq_iff_eq, not_or, not_and] at h
    unfold okByte
    by_cases h9 : b = 9
    · simp [h9]
    · have h127 : b.toNat ≠ 127 := fun e => h.2 (UInt8.toNat_inj.mp (by simpa using e))
      have h32 : ¬ b.toNat < 32 := fun hh => (h.1 hh) h9
      have : b.toNat < 256 := b.toNat_lt
      simp only [Bool.or_eq_true, Bool.and_eq_true, decide_eq_true_eq, beq_iff_eq]
      by_cases h128 : b.toNat ≥ 128
      · exact Or.inr h128
      · exact Or.inl (Or.inr ⟨by omega, by omega⟩)

/-- **C04_echo_printable.**  Whatever the peer sent, what is quoted of it may stand in a reply line. -/
theorem C04_echo_printable (x : Bytes) : textOk (printable x) = true := by
  rw [textOk_eq]
  unfold printable
  rw [List.all_map]
  exact List.all_eq_true.mpr (fun b _ => okByte_printable b)

/-- a value that may stand in a reply line is quoted unchanged -/
theorem C04_echo_faithful (x : Bytes) (h : textOk x = true) : printable x = x := by
  unfold printable
  rw [textOk_eq] at h
  induction x with
  | nil => rfl
  | cons b t ih =>
    simp only [List.all_cons, Bool.and_eq_true] at h
    simp only [List.map_cons]
    rw [ih h.2]
    have hb := h.1
    have : ((b.toNat < 32 && b != 9) || b == 127) = false := by
      unfold okByte at hb
      simp only [Bool.or_eq_true, Bool.and_eq_true, decide_eq_true_eq, beq_iff_eq] at hb
      rcases hb with (rfl | ⟨h1, h2⟩) | h3
      · decide
      · have e1 : ¬ b.toNat < 32 := by omega
        have e2 : b ≠ 127 := fun e => by subst e; simp at h2
        simp [e1, e2]
      · have e1 : ¬ b.toNat < 32 := by omega
        have e2 : b ≠ 127 := fun e => by subst e; simp at h3
        simp [e1, e2]
    simp [this]

theorem textOk_append (a b : Bytes) : textOk (a ++ b) = (textOk a && textOk b) := by
  simp [textOk_eq, List.all_append]

/-- **C04_echo_sites.**  The text of the five replies that quote the peer, for every quoted value. -/
theorem C04_echo_sites (x : Bytes) :
    textOk ("Syntax errors, ".b ++ printable x ++ " command unrecognized".b) = true ∧
    textOk ("Hello ".b ++ printable x) = true ∧
    textOk ("Roger, accepting mail from <".b ++ printable x ++ ">".b) = true ∧
    textOk ("I'll make sure <".b ++ printable x ++ "> gets this".b) = true ∧
    (∀ msg, textOk msg = true → textOk ("<".b ++ printable x ++ "> ".b ++ msg) = true) := by
  have hx := C04_echo_printable x
  refine ⟨?_, ?_, ?_, ?_, ?_⟩
  · rw [textOk_append, textOk_append, hx]; decide +kernel
  · rw [textOk_append, hx]; decide +kernel
  · rw [textOk_append, textOk_append, hx]; decide +kernel
  · rw [textOk_append, textOk_append, hx]; decide +kernel
  · intro msg hm
    rw [textOk_append, textOk_append, textOk_append, hx, hm]; decide +kernel

example : printable "AB\rD\x00\x7f\té".b = "AB?D??\té".b := by decide +kernel

end SmtpV.Props.C04
