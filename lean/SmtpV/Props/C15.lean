import SmtpV.Model.Client
import SmtpV.Spec.ClientMon
/-! # C15 (theorems follow) -/
namespace SmtpV.Props.C15
end SmtpV.Props.C15
