import SmtpV.Model.Client
import SmtpV.Spec.ClientMon
import SmtpV.Proofs.OneLine
import SmtpV.Proofs.ParamGated
/-!
# C15 — the client writes one command line per call and only negotiated parameters

Model level (`Client.mailLine`, `Client.rcptLine`; tied to client.go by the `cconv` correspondence).
The theorems quantify over EVERY argument value — addresses, option strings, times — hostile ones
included.
-/
namespace SmtpV.Props.C15
open SmtpV SmtpV.Text SmtpV.Xtext SmtpV.Client SmtpV.OneLine

theorem NoNL_of_check (l : Bytes) (h : l.all (fun b => b != 10 && b != 13) = true) : NoNL l := by
  intro b hb
  have := List.all_eq_true.mp h b hb
  simp only [Bool.and_eq_true, bne_iff_ne, ne_eq] at this
  exact this

theorem one_NoNL (b : Byte) (h : okB b) : NoNL [b] := NoNL_cons.mpr ⟨h, NoNL_nil⟩

theorem padDec_NoNL (n : Int) (w : Nat) : NoNL (padDec n w) := by
  unfold padDec
  refine NoNL_append.mpr ⟨?_, natToDec_NoNL _⟩
  intro b hb
  have := List.eq_of_mem_replicate hb
  subst this; decide

theorem zoneText_NoNL (o : Int) : NoNL (zoneText o) := by
  unfold zoneText
  split
  · exact one_NoNL 90 (by decide)
  · refine NoNL_append.mpr ⟨NoNL_append.mpr ⟨NoNL_append.mpr ⟨?_, padDec_NoNL _ _⟩, one_NoNL 58 (by decide)⟩, padDec_NoNL _ _⟩
    split
    · exact one_NoNL 45 (by decide)
    · exact one_NoNL 43 (by decide)

theorem formatRFC3339_NoNL (u o : Int) : NoNL (formatRFC3339 u o) := by
  have h45 : NoNL [45] := one_NoNL 45 (by decide)
  have h58 : NoNL [58] := one_NoNL 58 (by decide)
  have h84 : NoNL [84] := one_NoNL 84 (by decide)
  simp only [formatRFC3339, NoNL_append, padDec_NoNL, zoneText_NoNL, h45, h58, h84, and_self]

/-! ### every parameter, for every option value -/

theorem bodyParam_NoNL (ext o p) (h : bodyParam ext o = some p) : NoNL p := by
  unfold bodyParam at h
  simp only [] at h
  repeat' split at h
  all_goals first
    | (cases h; first | exact NoNL_nil | exact NoNL_of_check _ (by decide +kernel))
    | cases h

theorem sizeParam_NoNL (ext o) : NoNL (sizeParam ext o) := by
  unfold sizeParam
  split
  · exact NoNL_append.mpr ⟨by exact NoNL_of_check _ (by decide +kernel), intToDec_NoNL _⟩
  · exact NoNL_nil

theorem requireTLSParam_NoNL (ext o p) (h : requireTLSParam ext o = some p) : NoNL p := by
  unfold requireTLSParam at h
  repeat' split at h
  all_goals first
    | (cases h; first | exact NoNL_nil | exact NoNL_of_check _ (by decide +kernel))
    | cases h

theorem utf8Param_NoNL (ext o p) (h : utf8Param ext o = some p) : NoNL p := by
  unfold utf8Param at h
  repeat' split at h
  all_goals first
    | (cases h; first | exact NoNL_nil | exact NoNL_of_check _ (by decide +kernel))
    | cases h

theorem retParam_NoNL (o p) (h : retParam o = some p) : NoNL p := by
  unfold retParam at h
  repeat' split at h
  all_goals first
    | (cases h; first | exact NoNL_nil | exact NoNL_of_check _ (by decide +kernel))
    | cases h

theorem envidParam_NoNL (o p) (h : envidParam o = some p) : NoNL p := by
  unfold envidParam at h
  split at h
  · cases h; exact NoNL_nil
  · split at h
    · cases h
    · cases h; exact NoNL_append.mpr ⟨by exact NoNL_of_check _ (by decide +kernel), encodeXtext_NoNL _⟩

theorem dsnMailParams_NoNL (ext o p) (h : dsnMailParams ext o = some p) : NoNL p := by
  unfold dsnMailParams at h
  split at h
  · split at h
    · rename_i r e hr he
      cases h
      exact NoNL_append.mpr ⟨retParam_NoNL o r hr, envidParam_NoNL o e he⟩
    · cases h
  · cases h; exact NoNL_nil

theorem authParam_NoNL (ext o) : NoNL (authParam ext o) := by
  unfold authParam
  split
  · split
    · split
      · exact NoNL_of_check _ (by decide +kernel)
      · exact NoNL_append.mpr ⟨by exact NoNL_of_check _ (by decide +kernel), encodeXtext_NoNL _⟩
    · exact NoNL_nil
  · exact NoNL_nil

theorem mailParams_NoNL (ext o p) (h : mailParams ext o = some p) : NoNL p := by
  unfold mailParams at h
  split at h
  · cases h
  · rename_i b hb
    have hbn := bodyParam_NoNL ext o b hb
    split at h
    · cases h; exact hbn
    · rename_i o'
      split at h
      · rename_i t u d ht hu hd
        cases h
        exact NoNL_append.mpr ⟨NoNL_append.mpr ⟨NoNL_append.mpr ⟨NoNL_append.mpr ⟨NoNL_append.mpr
          ⟨hbn, sizeParam_NoNL ext o'⟩, requireTLSParam_NoNL ext o' t ht⟩, utf8Param_NoNL ext o' u hu⟩,
          dsnMailParams_NoNL ext o' d hd⟩, authParam_NoNL ext o'⟩
      · cases h

/-- **C15_mail_one_line.**  Whatever sender and options are given, the MAIL line that is written contains
    neither CR nor LF: no argument value can introduce a second line. -/
theorem C15_mail_one_line (ext : List (Bytes × Bytes)) (frm : Bytes) (o : Option MailOptions) (l : Bytes)
    (h : mailLine ext frm o = some l) : NoNL l := by
  unfold mailLine at h
  split at h
  · cases h
  · rename_i hv
    split at h
    · cases h
    · rename_i ps hps
      cases h
      exact NoNL_append.mpr ⟨NoNL_append.mpr ⟨NoNL_append.mpr ⟨by exact NoNL_of_check _ (by decide +kernel),
        validLine_NoNL frm (by simpa using hv)⟩, by exact NoNL_of_check _ (by decide +kernel)⟩, mailParams_NoNL ext o ps hps⟩

theorem intercalate_NoNL (vals : List Bytes) (h : ∀ v ∈ vals, NoNL v) : NoNL (List.intercalate [44] vals) := by
  induction vals with
  | nil => exact NoNL_nil
  | cons v t ih =>
    cases t with
    | nil => simpa [List.intercalate] using h v (by simp)
    | cons w t' =>
      have := ih (fun x hx => h x (List.mem_cons_of_mem _ hx))
      simp only [List.intercalate_cons_cons]
      exact NoNL_append.mpr ⟨NoNL_append.mpr ⟨h v (by simp), one_NoNL 44 (by decide)⟩, this⟩

theorem notifyParam_NoNL (o p) (h : notifyParam o = some p) : NoNL p := by
  unfold notifyParam at h
  split at h
  · cases h; exact NoNL_nil
  · split at h
    · cases h
    · rename_i hok
      cases h
      refine NoNL_append.mpr ⟨by exact NoNL_of_check _ (by decide +kernel), intercalate_NoNL _ ?_⟩
      intro v hv
      simp only [notifyOk, Bool.not_eq_true', Bool.not_eq_false, Bool.and_eq_true, List.all_eq_true, Bool.or_eq_true,
        beq_iff_eq] at hok
      rcases hok.1.1.2 v hv with ((e | e) | e) | e <;> rw [e] <;> exact NoNL_of_check _ (by decide +kernel)

theorem orcptParam_NoNL (ext o p) (h : orcptParam ext o = some p) : NoNL p := by
  unfold orcptParam at h
  split at h
  · cases h; exact NoNL_nil
  · split at h
    · split at h
      · cases h
      · cases h; exact NoNL_append.mpr ⟨by exact NoNL_of_check _ (by decide +kernel), encodeXtext_NoNL _⟩
    · split at h
      · cases h
        refine NoNL_append.mpr ⟨by exact NoNL_of_check _ (by decide +kernel), ?_⟩
        split
        · exact encodeUTF8AddrUnitext_NoNL _
        · exact encodeUTF8AddrXtext_NoNL _
      · cases h

theorem rrvsParam_NoNL (ext o) : NoNL (rrvsParam ext o) := by
  unfold rrvsParam
  split
  · split
    · exact NoNL_append.mpr ⟨by exact NoNL_of_check _ (by decide +kernel), formatRFC3339_NoNL _ _⟩
    · exact NoNL_nil
  · exact NoNL_nil

theorem rcptParams_NoNL (ext o p) (h : rcptParams ext o = some p) : NoNL p := by
  unfold rcptParams at h
  split at h
  · split at h
    · rename_i n oc hn hoc
      cases h
      exact NoNL_append.mpr ⟨NoNL_append.mpr ⟨notifyParam_NoNL o n hn, orcptParam_NoNL ext o oc hoc⟩, rrvsParam_NoNL ext o⟩
    · cases h
  · cases h; exact rrvsParam_NoNL ext o

/-- **C15_rcpt_one_line.**  The same for RCPT: recipient, NOTIFY, ORCPT of either type (through all three
    encoders) and the RRVS time. -/
theorem C15_rcpt_one_line (ext : List (Bytes × Bytes)) (to : Bytes) (o : Option RcptOptions) (l : Bytes)
    (h : rcptLine ext to o = some l) : NoNL l := by
  unfold rcptLine at h
  split at h
  · cases h
  · rename_i hv
    have hto : NoNL to := validLine_NoNL to (by simpa using hv)
    have h0 : NoNL ("RCPT TO:<".b ++ to ++ ">".b) :=
      NoNL_append.mpr ⟨NoNL_append.mpr ⟨by exact NoNL_of_check _ (by decide +kernel), hto⟩, by exact NoNL_of_check _ (by decide +kernel)⟩
    split at h
    · cases h; exact h0
    · split at h
      · cases h
      · rename_i ps hps
        cases h
        exact NoNL_append.mpr ⟨h0, rcptParams_NoNL ext _ ps hps⟩

/-- **C15_hostile_address_refused.**  An address containing CR or LF is a local error: no line at all. -/
theorem C15_hostile_address_refused (ext : List (Bytes × Bytes)) (a : Bytes) (h : ¬ NoNL a) :
    (∀ o, mailLine ext a o = none) ∧ (∀ o, rcptLine ext a o = none) := by
  have hv : validLine a = false := by
    cases hvl : validLine a with
    | false => rfl
    | true => exact absurd (validLine_NoNL a hvl) h
  constructor <;> intro o <;> simp [mailLine, rcptLine, hv]

/-! ### only negotiated parameters -/

/-- **C15_no_ext_no_params.**  When the server's latest EHLO reply offered nothing, nothing but the address is
    sent (or the call fails locally): no parameter is ever sent for an extension that was not offered. -/
theorem C15_no_ext_no_params (a : Bytes) :
    (∀ o l, mailLine [] a o = some l → l = "MAIL FROM:<".b ++ a ++ ">".b) ∧
    (∀ o l, rcptLine [] a o = some l → l = "RCPT TO:<".b ++ a ++ ">".b) := by
  have he : ∀ k, hasExt [] k = false := fun k => by simp [hasExt]
  constructor
  · intro o l h
    unfold mailLine at h
    split at h
    · cases h
    · split at h
      · cases h
      · rename_i ps hps
        cases h
        suffices ps = [] by simp [this]
        unfold mailParams at hps
        split at hps
        · cases hps
        · rename_i b hb
          have hb' : b = [] := by
            unfold bodyParam at hb
            simp only [he, Bool.false_eq_true, if_false] at hb
            repeat' split at hb
            all_goals first
              | (cases hb; rfl)
              | cases hb
          subst hb'
          split at hps
          · cases hps; rfl
          · rename_i o'
            split at hps
            · rename_i t u d ht hu hd
              cases hps
              have : t = [] := by
                unfold requireTLSParam at ht; simp only [he, Bool.false_eq_true, if_false] at ht
                repeat' split at ht
                all_goals first
                  | (cases ht; rfl)
                  | cases ht
              have : u = [] := by
                unfold utf8Param at hu; simp only [he, Bool.false_eq_true, if_false] at hu
                repeat' split at hu
                all_goals first
                  | (cases hu; rfl)
                  | cases hu
              have : d = [] := by
                unfold dsnMailParams at hd; simp only [he] at hd
                simpa using hd.symm
              have : sizeParam [] o' = [] := by simp [sizeParam, he]
              have : authParam [] o' = [] := by
                unfold authParam; simp only [he]; split <;> simp
              simp [*]
            · cases hps
  · intro o l h
    unfold rcptLine at h
    split at h
    · cases h
    · split at h
      · cases h; rfl
      · split at h
        · cases h
        · rename_i ps hps
          cases h
          suffices ps = [] by simp [this]
          have hr : ∀ o' : RcptOptions, rrvsParam [] o' = [] := by
            intro o'; unfold rrvsParam; simp only [he]; split <;> simp
          unfold rcptParams at hps
          simp only [he, hr] at hps
          simpa using hps.symm

/-- **C15_unoffered_is_error.**  REQUIRETLS or SMTPUTF8 requested but not offered: a local error, nothing written. -/
theorem C15_unoffered_is_error (ext : List (Bytes × Bytes)) (a : Bytes) (o : MailOptions)
    (h : (o.requireTLS = true ∧ hasExt ext "REQUIRETLS" = false) ∨ (o.utf8 = true ∧ hasExt ext "SMTPUTF8" = false)) :
    mailLine ext a (some o) = none := by
  have hp : mailParams ext (some o) = none := by
    unfold mailParams
    split
    · rfl
    · rcases h with ⟨h1, h2⟩ | ⟨h1, h2⟩
      · simp [requireTLSParam, h1, h2]
      · have : utf8Param ext o = none := by simp [utf8Param, h1, h2]
        simp only [this]
        split <;> simp_all
  unfold mailLine
  split
  · rfl
  · simp [hp]

/-! ### per extension: each parameter only when its extension was offered -/

/-- **C15_mail_params_gated.**  Whatever options are requested, the MAIL line is the address followed by six pieces,
    one per extension, and each piece is empty unless its extension is in the capabilities of the latest EHLO
    (`ext`); a requested REQUIRETLS or SMTPUTF8 is on the line (never dropped). -/
theorem C15_mail_params_gated (ext : List (Bytes × Bytes)) (frm : Bytes) (o : MailOptions) (l : Bytes)
    (h : mailLine ext frm (some o) = some l) :
    ∃ b s t u d a : Bytes, l = "MAIL FROM:<".b ++ frm ++ ">".b ++ (b ++ s ++ t ++ u ++ d ++ a) ∧
      (b = [] ∨ (hasExt ext "8BITMIME" = true ∧ (b = " BODY=7BIT".b ∨ b = " BODY=8BITMIME".b)) ∨
        (hasExt ext "BINARYMIME" = true ∧ b = " BODY=BINARYMIME".b)) ∧
      (s = [] ∨ (hasExt ext "SIZE" = true ∧ s = " SIZE=".b ++ intToDec o.size)) ∧
      ((t = [] ∧ o.requireTLS = false) ∨ (hasExt ext "REQUIRETLS" = true ∧ o.requireTLS = true ∧ t = " REQUIRETLS".b)) ∧
      ((u = [] ∧ o.utf8 = false) ∨ (hasExt ext "SMTPUTF8" = true ∧ o.utf8 = true ∧ u = " SMTPUTF8".b)) ∧
      (d = [] ∨ (hasExt ext "DSN" = true ∧ ∃ r e, d = r ++ e ∧ (r = [] ∨ r = " RET=FULL".b ∨ r = " RET=HDRS".b) ∧
        (e = [] ∨ e = " ENVID=".b ++ encodeXtext o.envid))) ∧
      (a = [] ∨ (hasExt ext "AUTH" = true ∧ ∃ x, o.auth = some x ∧
        a = (if x.isEmpty then " AUTH=<>".b else " AUTH=".b ++ encodeXtext x))) := by
  unfold mailLine at h
  split at h
  · cases h
  · split at h
    · cases h
    · rename_i ps hps
      cases h
      obtain ⟨b, t, u, d, hb, ht, hu, hd, rfl⟩ := mailParams_gated ext o ps hps
      refine ⟨b, sizeParam ext o, t, u, d, authParam ext o, rfl, bodyParam_gated ext _ b hb, sizeParam_gated ext o,
        requireTLSParam_gated ext o t ht, utf8Param_gated ext o u hu, ?_, authParam_gated ext o⟩
      rcases dsnMailParams_gated ext o d hd with h | ⟨he, r, e, hr, hen, rfl⟩
      · exact Or.inl h
      · exact Or.inr ⟨he, r, e, rfl, retParam_shape o r hr, envidParam_shape o e hen⟩

/-- without options only BODY= may follow the address, and only when 8BITMIME was offered -/
theorem C15_mail_default_gated (ext : List (Bytes × Bytes)) (frm : Bytes) (l : Bytes) (h : mailLine ext frm none = some l) :
    l = "MAIL FROM:<".b ++ frm ++ ">".b ∨ (hasExt ext "8BITMIME" = true ∧ l = "MAIL FROM:<".b ++ frm ++ ">".b ++ " BODY=8BITMIME".b) := by
  unfold mailLine at h
  split at h
  · cases h
  · split at h
    · cases h
    · rename_i ps hps
      cases h
      have hb := mailParams_none_gated ext ps hps
      have h1 : ("8BITMIME".b == "7BIT".b) = false := by decide +kernel
      have h2 : ("8BITMIME".b == "8BITMIME".b) = true := by decide +kernel
      unfold bodyParam at hb
      simp only [h1, h2, if_true, Bool.false_eq_true, if_false] at hb
      cases hb
      by_cases he : hasExt ext "8BITMIME" = true
      · right; exact ⟨he, by simp [he]⟩
      · left; simp [he]

/-- **C15_rcpt_params_gated.**  The RCPT line: NOTIFY= and ORCPT= only when DSN was offered, RRVS= only when RRVS was. -/
theorem C15_rcpt_params_gated (ext : List (Bytes × Bytes)) (to : Bytes) (o : RcptOptions) (l : Bytes)
    (h : rcptLine ext to (some o) = some l) :
    ∃ n oc rv : Bytes, l = "RCPT TO:<".b ++ to ++ ">".b ++ (n ++ oc ++ rv) ∧
      ((n = [] ∧ oc = []) ∨ (hasExt ext "DSN" = true ∧ notifyParam o = some n ∧ orcptParam ext o = some oc)) ∧
      (rv = [] ∨ (hasExt ext "RRVS" = true ∧ ∃ t, o.rrvs = some t ∧ rv = " RRVS=".b ++ formatRFC3339 t.1 t.2)) := by
  unfold rcptLine at h
  split at h
  · cases h
  · simp only [] at h
    split at h
    · cases h
    · rename_i ps hps
      cases h
      obtain ⟨n, oc, rfl, hg⟩ := rcptParams_gated ext o ps hps
      exact ⟨n, oc, rrvsParam ext o, rfl, hg, rrvsParam_gated ext o⟩

/-! ### non-vacuity: a hostile ORCPT with CR LF and a command behind it, DSN and SMTPUTF8 offered -/

example : rcptLine [("DSN".b, []), ("SMTPUTF8".b, [])] "r@x".b
    (some { orcptType := "UTF-8".b, orcpt := "o@x\r\nRSET\r\nMAIL FROM:<evil@x>".b }) =
    some "RCPT TO:<r@x> ORCPT=UTF-8;o@x\\x{0D}\\x{0A}RSET\\x{0D}\\x{0A}MAIL\\x{20}FROM:<evil@x>".b := by
  decide +kernel

example : mailLine [("DSN".b, [])] "s@x".b (some { envid := "a\nb".b }) = none := by decide +kernel

end SmtpV.Props.C15
