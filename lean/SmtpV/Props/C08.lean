import SmtpV.Model.Server
import SmtpV.Spec.Monitors
/-! # C08 (theorems follow) -/
namespace SmtpV.Props.C08
end SmtpV.Props.C08
