import SmtpV.Props.C03
/-!
# C08 — each session is logged out exactly once; nothing runs after the end

The theorems live next to C03's (both are consequences of `order_accepts_every_connection`); they are restated here
under the property's own name.
-/
namespace SmtpV.Props.C08
open SmtpV SmtpV.Spec SmtpV.Server SmtpV.Props.C03

/-- **C08_lifecycle.**  On every connection — every input, backend script, configuration, including every point at
    which the input ends (the command loop simply stops there and the deferred Close runs) — each session is logged
    out exactly once, nothing is called on it afterwards, the connection is closed exactly once and nothing is written
    or called after that. -/
theorem C08_lifecycle (s : S) (h : Fresh s) : Mon.check8 (serve s).evs.reverse = [] := C03.C08_lifecycle s h

theorem C08_lifecycle_visible (s : S) (h : Fresh s) : Mon.check8 ((serve s).evs.reverse.filter visible) = [] :=
  C03.C08_lifecycle_visible s h

/-- the connection always ends closed, with nobody logged in -/
theorem C08_ends_closed (s : S) (h : Fresh s) : (serve s).c.closed = true ∧ (serve s).c.session = none :=
  let ⟨_, _, hc, hs⟩ := serve_good (fresh_good s h); ⟨hc, hs⟩

end SmtpV.Props.C08
