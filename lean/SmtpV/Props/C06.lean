import SmtpV.Props.DataMonitor
/-!
# C06 — MaxMessageBytes bounds what a backend is handed and what is accepted (DATA reader part)

BDAT accounting and the SIZE parameter are in Props/C06Conv.lean.
-/
namespace SmtpV.Props.C06
open SmtpV SmtpV.Spec SmtpV.DataReader

/-- **C06_bound_data.**  With limit `n`, whatever the input (terminated or not, hostile or not) and
    whatever the read sizes, the backend is handed at most `n` octets. -/
theorem C06_bound_data (n : Nat) (s : Bytes) (sizes : List Nat) :
    (outs (readSched (freshReader (some n)) s sizes).1).length ≤ n :=
  sched_budget sizes (freshReader (some n)) s rfl

/-- **C06_oversize_never_complete.**  A message longer than the limit is never reported complete:
    no read returns EOF (only `nil` or "too large"), and `n+1` non-empty reads end in "too large". -/
theorem C06_oversize_never_complete (n : Nat) (s body rest : Bytes) (h : Terminated s body rest)
    (hover : n < body.length) (sizes : List Nat) :
    (∀ x ∈ (readSched (freshReader (some n)) s sizes).1, x.2 = .more ∨ x.2 = .tooLarge) ∧
    ((∀ k ∈ sizes, 0 < k) → n < sizes.length →
        ∃ x, (readSched (freshReader (some n)) s sizes).1.getLast? = some x ∧ x.2 = .tooLarge) :=
  sched_over sizes (freshReader (some n)) s body rest (run_terminated s body rest h) (Or.inl rfl) rfl hover

/-- **C06_transparent.**  A message of at most `n` octets is read through the limited reader exactly
    as C01 says for the unlimited one: prefix, no error, EOF ⇒ exact body and leftover, progress. -/
theorem C06_transparent (n : Nat) (s body rest : Bytes) (h : Terminated s body rest)
    (hfit : body.length ≤ n) (sizes : List Nat) :
    outs (readSched (freshReader (some n)) s sizes).1 <+: body ∧
    (∀ x ∈ (readSched (freshReader (some n)) s sizes).1, x.2 = .more ∨ x.2 = .eof) ∧
    (∀ x, (readSched (freshReader (some n)) s sizes).1.getLast? = some x → x.2 = .eof →
        outs (readSched (freshReader (some n)) s sizes).1 = body ∧
        (readSched (freshReader (some n)) s sizes).2.2 = rest) ∧
    ((∀ k ∈ sizes, 0 < k) → body.length < sizes.length →
        ∃ x, (readSched (freshReader (some n)) s sizes).1.getLast? = some x ∧ x.2 = .eof) := by
  obtain ⟨o', ho, hall, hlast, hprog⟩ :=
    sched_ok sizes (freshReader (some n)) s body rest (run_terminated s body rest h) (Or.inl rfl)
      (fun _ => hfit)
  refine ⟨⟨o', ho.symm⟩, hall, ?_, hprog⟩
  intro x hx hxe
  obtain ⟨ho', hr⟩ := hlast x hx hxe
  subst ho'
  exact ⟨by simpa using ho.symm, hr⟩

/-- non-vacuity: exactly-`n`, below and above, with the same 5-octet message -/
example :
    let s := "abc\r\n.\r\nNOOP\r\n".b
    ((readSched (freshReader (some 5)) s [2, 2, 2, 2]).1.map Prod.snd = [.more, .more, .more, .eof]) ∧
    ((readSched (freshReader (some 4)) s [2, 2, 2, 2]).1.map Prod.snd = [.more, .more, .tooLarge]) ∧
    ((readSched (freshReader (some 9)) s [9, 9]).1.map Prod.snd = [.eof]) := by
  decide +kernel

end SmtpV.Props.C06
