import SmtpV.Props.DataMonitor
import SmtpV.Proofs.SizeLimit
import SmtpV.Proofs.BdatGrow
import SmtpV.Proofs.AcctInv
import SmtpV.Props.C03
/-!
# C06 — MaxMessageBytes bounds what a backend is handed and what is accepted (DATA reader part)

The over-limit BDAT chunk and the declared SIZE follow below, on the server model (`Proofs/BdatLimit.lean`, `SizeLimit.lean`);
the accounting across chunks, transactions and the whole connection is `C06_no_delivery_over_limit` (`Proofs/AcctInv.lean`).
-/
namespace SmtpV.Props.C06
open SmtpV SmtpV.Spec SmtpV.DataReader SmtpV.Server

/-- **C06_bound_data.**  With limit `n`, whatever the input (terminated or not, hostile or not) and
    whatever the read sizes, the backend is handed at most `n` octets. -/
theorem C06_bound_data (n : Nat) (s : Bytes) (sizes : List Nat) :
    (outs (readSched (freshReader (some n)) s sizes).1).length ≤ n :=
  sched_budget sizes (freshReader (some n)) s rfl

/-- **C06_oversize_never_complete.**  A message longer than the limit is never reported complete:
    no read returns EOF (only `nil` or "too large"), and `n+1` non-empty reads end in "too large". -/
theorem C06_oversize_never_complete (n : Nat) (s body rest : Bytes) (h : Terminated s body rest)
    (hover : n < body.length) (sizes : List Nat) :
    (∀ x ∈ (readSched (freshReader (some n)) s sizes).1, x.2 = .more ∨ x.2 = .tooLarge) ∧
    ((∀ k ∈ sizes, 0 < k) → n < sizes.length →
        ∃ x, (readSched (freshReader (some n)) s sizes).1.getLast? = some x ∧ x.2 = .tooLarge) :=
  sched_over sizes (freshReader (some n)) s body rest (run_terminated s body rest h) (Or.inl rfl) rfl hover

/-- **C06_transparent.**  A message of at most `n` octets is read through the limited reader exactly
    as C01 says for the unlimited one: prefix, no error, EOF ⇒ exact body and leftover, progress. -/
theorem C06_transparent (n : Nat) (s body rest : Bytes) (h : Terminated s body rest)
    (hfit : body.length ≤ n) (sizes : List Nat) :
    outs (readSched (freshReader (some n)) s sizes).1 <+: body ∧
    (∀ x ∈ (readSched (freshReader (some n)) s sizes).1, x.2 = .more ∨ x.2 = .eof) ∧
    (∀ x, (readSched (freshReader (some n)) s sizes).1.getLast? = some x → x.2 = .eof →
        outs (readSched (freshReader (some n)) s sizes).1 = body ∧
        (readSched (freshReader (some n)) s sizes).2.2 = rest) ∧
    ((∀ k ∈ sizes, 0 < k) → body.length < sizes.length →
        ∃ x, (readSched (freshReader (some n)) s sizes).1.getLast? = some x ∧ x.2 = .eof) := by
  obtain ⟨o', ho, hall, hlast, hprog⟩ :=
    sched_ok sizes (freshReader (some n)) s body rest (run_terminated s body rest h) (Or.inl rfl)
      (fun _ => hfit)
  refine ⟨⟨o', ho.symm⟩, hall, ?_, hprog⟩
  intro x hx hxe
  obtain ⟨ho', hr⟩ := hlast x hx hxe
  subst ho'
  exact ⟨by simpa using ho.symm, hr⟩

/-- **C06_eof_is_sticky.**  A reader that has reported the end of the message keeps reporting it — nothing read, nothing taken off
    the stream — whatever its size budget says: a message of exactly the maximum size looks to a backend that reads once more (a
    `bufio` wrapper, a second `ReadAll`) exactly like the same message without a limit.  (Before the repair recorded in
    known_findings.json the second read of an exactly-N message returned "too large", which a backend that propagates reader errors
    turned into 552 for a legal message.) -/
theorem C06_eof_is_sticky (r : DR) (inp : Bytes) (k : Nat) (h : r.state = .eof) :
    DataReader.read r inp k = (r, [], inp, .eof) := by
  have hrl : ∀ j, readLoop St.eof inp j = (St.eof, [], inp) := by
    intro j; cases j <;> simp [readLoop]
  unfold DataReader.read
  simp only [h, bne_self_eq_false, Bool.and_false, Bool.false_eq_true, if_false, hrl, List.length_nil, beq_self_eq_true, if_true]
  cases r
  simp_all

example : (DataReader.read { state := .eof, limited := true, n := 0 } "NOOP\r\n".b 4).2.2.2 = .eof := by decide +kernel

/-- non-vacuity: exactly-`n`, below and above, with the same 5-octet message -/
example :
    let s := "abc\r\n.\r\nNOOP\r\n".b
    ((readSched (freshReader (some 5)) s [2, 2, 2, 2]).1.map Prod.snd = [.more, .more, .more, .eof]) ∧
    ((readSched (freshReader (some 4)) s [2, 2, 2, 2]).1.map Prod.snd = [.more, .more, .tooLarge]) ∧
    ((readSched (freshReader (some 9)) s [9, 9]).1.map Prod.snd = [.eof]) := by
  decide +kernel

/-! ### BDAT and SIZE on the server model -/
open SmtpV.Server SmtpV.Text

/-- **C06_chunk_over_limit.**  A well-formed `BDAT size [LAST]` inside a transaction whose size would take the message over
    the limit: no delivery is handed a single octet, no end of file is recorded, and the transaction is gone (no sender,
    no recipients, no open transfer) — the command's only other effects are the 552 reply and skipping the payload. -/
theorem C06_chunk_over_limit (s : S) (arg a0 : Bytes) (more : List Bytes) (size : Nat)
    (hf : fields arg = a0 :: more) (hsz : parseUintDec a0 32 = some size) (hm : more.length ≤ 1)
    (henv : s.c.fromReceived = true ∧ s.c.recipients.isEmpty = false) (hlast : bdatLastBad more = false)
    (hover : s.cfg.maxMsg ≠ 0 ∧ s.c.bytesReceived + size > s.cfg.maxMsg) :
    handleBdat s arg = (resetConn (discardChunkN (reply s 552 ⟨5, 3, 4⟩ "Max message size exceeded") (some size)), false) ∧
    SameOctets s (handleBdat s arg).1 ∧ NoNewEof s (handleBdat s arg).1 ∧
    (handleBdat s arg).1.c.fromReceived = false ∧ (handleBdat s arg).1.c.recipients = [] ∧ (handleBdat s arg).1.c.bdat = none :=
  ⟨handleBdat_over_limit s arg a0 more size hf hsz hm henv hlast hover,
   handleBdat_over_limit_effect s arg a0 more size hf hsz hm henv hlast hover⟩

/-- **C06_declared_size_refused.**  A MAIL parameter `SIZE=n` with `n` above the limit (any `n` an int64 can hold: 63 bits since 548a344; RFC 1870 allows 20 digits) makes the parameter switch refuse with 552, whatever follows — `handleMail` then answers and returns without calling the backend. -/
theorem C06_declared_size_refused (cfg : Cfg) (rest : List (Bytes × Bytes)) (o : MailOpts) (bm : Bool) (n : Nat)
    (h : n < 2 ^ 63) (hm : cfg.maxMsg > 0 ∧ n > cfg.maxMsg) :
    Server.mailParams cfg (("SIZE".b, natToDec n) :: rest) o bm = .refuse 552 ⟨5, 3, 4⟩ "Max message size exceeded" :=
  mailParams_size_over cfg rest o bm n h hm

/-- **C06_accepted_chunk_bounded.**  Executing an accepted `BDAT size [LAST]` — in any state, with any backend behaviour, however
    the chunk arrives or fails to arrive — hands no delivery more than `size` further octets; in particular, if every delivery
    so far stays within `N` after `size` more octets (which is what the server's check `bytesReceived + size ≤ N` establishes for
    the running transfer), it still does afterwards. -/
theorem C06_accepted_chunk_bounded (s : S) (size : Nat) (last : Bool) :
    GrowBy s (bdatChunk s size last).1 size ∧
    ∀ N, (∀ j, octLen s j + size ≤ N) → ∀ j, octLen (bdatChunk s size last).1 j ≤ N := by
  refine ⟨grow_bdatChunk s size last, fun N h j => ?_⟩
  have := grow_bdatChunk s size last j
  have := h j
  omega

/-- **C06_no_delivery_over_limit.**  On every connection of the server model with a size limit `N` configured — all inputs and
    segmentations, all backend behaviours, DATA and BDAT in any mixture, any number of chunks and transactions, transfers that
    complete, fail or are abandoned — no `Data`/`LMTPData` call is ever handed more than `N` message octets. -/
theorem C06_no_delivery_over_limit (s : S) (h : Props.C03.Fresh s) (hd : s.drecs = []) (hb : s.c.bytesReceived = 0)
    (hm : s.cfg.maxMsg > 0) (j : Nat) (d : DRec) (hj : (serve s).drecs[j]? = some d) :
    d.octets.length ≤ s.cfg.maxMsg := by
  have h0 : Acct s := ⟨fun _ j => by simp [octLen, hd], fun _ => by omega, fun k hk => by rw [h.bdat] at hk; cases hk⟩
  have h1 := acct_serve s h0
  have hcfg := (serve_good (Props.C03.fresh_good s h)).2.1
  have := h1.all (by rw [hcfg]; exact hm) j
  rw [hcfg] at this
  simpa [octLen, hj] using this

/-- the hypotheses are those of a new connection with a limit configured -/
example : Props.C03.Fresh ({ cfg := { maxMsg := 5 } } : S) ∧ ({ cfg := { maxMsg := 5 } } : S).drecs = [] ∧
    ({ cfg := { maxMsg := 5 } } : S).c.bytesReceived = 0 ∧ ({ cfg := { maxMsg := 5 } } : S).cfg.maxMsg > 0 :=
  ⟨⟨rfl, rfl, rfl, rfl, rfl, rfl, rfl, rfl⟩, rfl, rfl, by decide⟩

/-- the invariant behind it, for use at any point of a connection: every delivery within the limit, the running total of accepted
    chunk sizes within the limit, the running transfer's delivery within that total -/
theorem C06_accounting_invariant (s : S) (h : Acct s) : Acct (serve s) := acct_serve s h

end SmtpV.Props.C06
