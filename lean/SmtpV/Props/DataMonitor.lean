import SmtpV.Proofs.DataGeneral
import SmtpV.Proofs.Scan
import SmtpV.Spec.DataMon
/-!
The DATA monitor accepts the model on **every** stream, limit and read schedule.
This is the single statement from which C01, C02 (reader part), C06 and C07 (reader part)
are read off; the per-property files restate the clauses without the monitor.
-/
namespace SmtpV.Props
open SmtpV SmtpV.Spec SmtpV.DataReader

/-- the reader `newDataReader` builds: unlimited, or with budget `n` -/
def freshReader : Option Nat → DR
  | none => {}
  | some n => { limited := true, n := n }

theorem outs_eq (l : List (Bytes × Res)) : DataMon.outs l = DataReader.outs l := rfl

theorem lastIs_iff (l : List (Bytes × Res)) (r : Res) :
    DataMon.lastIs l r = true ↔ ∃ x, l.getLast? = some x ∧ x.2 = r := by
  unfold DataMon.lastIs
  cases l.getLast? <;> simp

theorem allPos_iff (sizes : List Nat) : DataMon.allPos sizes = true ↔ ∀ k ∈ sizes, 0 < k := by
  simp [DataMon.allPos]

theorem data_monitor_accepts_model (lim : Option Nat) (s : Bytes) (sizes : List Nat) :
    DataMon.check lim s sizes (readSched (freshReader lim) s sizes).1
      (readSched (freshReader lim) s sizes).2.2 = [] := by
  have hst : (freshReader lim).state = .bol := by cases lim <;> rfl
  have hB : Boundary (freshReader lim).state := by rw [hst]; exact Or.inl rfl
  unfold DataMon.check
  simp only [outs_eq]
  -- clause 1: the budget
  have hbud : DataMon.leLimit lim (DataReader.outs (readSched (freshReader lim) s sizes).1).length = true := by
    cases lim with
    | none => rfl
    | some n =>
      have := sched_budget sizes (freshReader (some n)) s rfl
      simp only [DataMon.leLimit, decide_eq_true_eq]
      exact this
  simp only [hbud, if_true, List.nil_append]
  cases hT : terminated? s with
  | none =>
    -- never EOF on an unterminated stream
    have hnot := (terminated?_none s).mp hT
    simp only
    rw [if_neg]
    intro hany
    simp only [List.any_eq_true, beq_iff_eq] at hany
    obtain ⟨x, hx, hxe⟩ := hany
    -- an EOF result can only be the last one (the schedule stops there)
    have : ∃ y, (readSched (freshReader lim) s sizes).1.getLast? = some y ∧ y.2 = .eof := by
      clear hbud hnot hT hB hst
      generalize freshReader lim = r at *
      induction sizes generalizing r s with
      | nil => simp [readSched] at hx
      | cons k ks ih =>
        simp only [readSched] at hx ⊢
        cases hres : (read r s k).2.2.2 <;> simp only [hres] at hx ⊢
        · simp only [List.mem_cons] at hx
          rcases hx with rfl | hx
          · simp at hxe
          · obtain ⟨y, hy, hye⟩ := ih _ _ hx
            refine ⟨y, ?_, hye⟩
            cases hl : (readSched (read r s k).1 (read r s k).2.2.1 ks).1 with
            | nil => rw [hl] at hy; simp at hy
            | cons a as => rw [hl] at hy; simpa [List.getLast?_cons_cons] using hy
        all_goals (simp at hx; subst hx; exact ⟨_, by simp, hxe⟩)
    obtain ⟨y, hy, hye⟩ := this
    exact hnot ⟨_, _, sched_eof_terminated sizes (freshReader lim) s hst y hy hye⟩
  | some p =>
    obtain ⟨body, rest0⟩ := p
    have hTerm := (terminated?_iff s body rest0).mp hT
    have hE : run (freshReader lim).state s = (.eof, body, rest0) := by
      rw [hst]; exact run_terminated s body rest0 hTerm
    simp only
    by_cases hfits : DataMon.leLimit lim body.length = true
    · rw [if_pos hfits]
      have hfit : (freshReader lim).limited = true → body.length ≤ (freshReader lim).n := by
        cases lim with
        | none => intro h; cases h
        | some n => intro _; simpa [DataMon.leLimit, freshReader] using hfits
      obtain ⟨o', ho, hall, hlast, hprog⟩ := sched_ok sizes (freshReader lim) s body rest0 hE hB hfit
      have c1 : (DataReader.outs (readSched (freshReader lim) s sizes).1).isPrefixOf body = true := by
        rw [List.isPrefixOf_iff_prefix]; exact ⟨o', ho.symm⟩
      have c2 : (readSched (freshReader lim) s sizes).1.all
          (fun x => x.2 == Res.more || x.2 == Res.eof) = true := by
        simp only [List.all_eq_true, Bool.or_eq_true, beq_iff_eq]; exact hall
      have c3 : (DataMon.lastIs (readSched (freshReader lim) s sizes).1 Res.eof &&
          !(DataReader.outs (readSched (freshReader lim) s sizes).1 == body &&
            (readSched (freshReader lim) s sizes).2.2 == rest0)) = false := by
        cases hl : DataMon.lastIs (readSched (freshReader lim) s sizes).1 Res.eof with
        | false => rfl
        | true =>
          obtain ⟨x, hx, hxe⟩ := (lastIs_iff _ _).mp hl
          obtain ⟨ho', hr⟩ := hlast x hx hxe
          subst ho'
          have ho2 : DataReader.outs (readSched (freshReader lim) s sizes).1 = body := by
            simpa using ho.symm
          simp [hr, ho2]
      have c4 : (DataMon.allPos sizes && decide (body.length < sizes.length) &&
          !DataMon.lastIs (readSched (freshReader lim) s sizes).1 Res.eof) = false := by
        cases hp : DataMon.allPos sizes with
        | false => rfl
        | true =>
          by_cases hlt : body.length < sizes.length
          · have := (lastIs_iff _ _).mpr (hprog ((allPos_iff sizes).mp hp) hlt)
            simp [this]
          · simp [hlt]
      simp only [c1, c2, c3, c4, if_true, Bool.false_eq_true, if_false, List.append_nil]
    · rw [if_neg hfits]
      cases lim with
      | none => simp [DataMon.leLimit] at hfits
      | some n =>
        have hover : n < body.length := by simpa [DataMon.leLimit] using hfits
        obtain ⟨hall, hprog⟩ := sched_over sizes (freshReader (some n)) s body rest0 hE hB rfl hover
        have c1 : (readSched (freshReader (some n)) s sizes).1.all
            (fun x => x.2 == Res.more || x.2 == Res.tooLarge) = true := by
          simp only [List.all_eq_true, Bool.or_eq_true, beq_iff_eq]; exact hall
        have c2 : (DataMon.allPos sizes && DataMon.limitLt (some n) sizes.length &&
            !DataMon.lastIs (readSched (freshReader (some n)) s sizes).1 Res.tooLarge) = false := by
          cases hp : DataMon.allPos sizes with
          | false => rfl
          | true =>
            by_cases hlt : n < sizes.length
            · have := (lastIs_iff _ _).mpr (hprog ((allPos_iff sizes).mp hp) (by simpa [freshReader] using hlt))
              simp [this]
            · simp [DataMon.limitLt, hlt]
        simp only [c1, c2, if_true, Bool.false_eq_true, if_false, List.append_nil]

end SmtpV.Props
