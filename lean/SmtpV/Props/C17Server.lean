import SmtpV.Props.C17
import SmtpV.Model.Server
/-!
# C17, server side — the handlers hand the backend's error to `writeResponse` unchanged

The link between the server model's handlers and the renderer that `C17_roundtrip` is about.
-/
namespace SmtpV.Props.C17
open SmtpV SmtpV.Text SmtpV.Spec SmtpV.Reply SmtpV.Server

/-- **C17_server_passes_mail_error.**  When the backend's `Mail` returns an `SMTPError{c, e, m}` the server's MAIL handler
    writes exactly `writeResponse(c, e, m)` — the octets `C17_roundtrip` is about — and nothing else. -/
theorem C17_server_passes_mail_error (s : S) (id : Nat) (frm : Bytes) (opts : MailOpts) (c : Nat) (e : Enh) (m : Bytes)
    (rest : List BRes) (hb : s.be.mail = .se c e m :: rest) (hc : s.c.closed = false) :
    (mailCall s id frm opts).1.evs = .w (render c e [m]) :: .mail id frm opts (.se c e m) :: s.evs := by
  unfold mailCall popMail
  simp [hb, write, emit, hc, renderError]

/-- the same for a plain error: `451 4.0.0 <text>` -/
theorem C17_server_passes_mail_plain_error (s : S) (id : Nat) (frm : Bytes) (opts : MailOpts) (m : Bytes)
    (rest : List BRes) (hb : s.be.mail = .er m :: rest) (hc : s.c.closed = false) :
    (mailCall s id frm opts).1.evs = .w (render 451 ⟨4, 0, 0⟩ [m]) :: .mail id frm opts (.er m) :: s.evs := by
  unfold mailCall popMail
  simp [hb, write, emit, hc, renderError]

/-- the same for RCPT -/
theorem C17_server_passes_rcpt_error (s : S) (c : Nat) (e : Enh) (m : Bytes) (rest : List BRes)
    (hb : s.be.rcpt = .se c e m :: rest) (hc : s.c.closed = false) (ev : Ev) :
    (write (emit (popRcpt s).2 ev) (renderError 451 ⟨4, 0, 0⟩ (popRcpt s).1)).evs = .w (render c e [m]) :: ev :: s.evs := by
  unfold popRcpt
  simp [hb, write, emit, hc, renderError]

/-- **C17_server_passes_data_error.**  Plain SMTP: the final reply of DATA is `writeResponse(dataErrorToStatus(result))`,
    written after the rest of the message has been drained and before the transaction is reset. -/
theorem C17_server_passes_data_error (s : S) (k : Nat) (r1 : DataReader.DR) (octets : Bytes) (e : RdEnd) (dec : DataDec)
    (hp : resolveRet dec.ret e ≠ .panic) :
    ∃ s', dataFinishSmtp s k r1 octets e dec =
      (resetConn (replyB s' (dataStatus (resolveRet dec.ret e)).1 (dataStatus (resolveRet dec.ret e)).2.1
        [(dataStatus (resolveRet dec.ret e)).2.2]), false) ∧ s'.evs = s.evs ∧ s'.c = s.c := by
  unfold dataFinishSmtp
  have hp' : (resolveRet dec.ret e == BRes.panic) = false := by simpa using hp
  simp only [hp', Bool.false_eq_true, if_false]
  exact ⟨_, rfl, rfl, rfl⟩

end SmtpV.Props.C17
