import SmtpV.Model.Lifecycle
import SmtpV.Model.Chunked
import SmtpV.Model.LateStart
/-!
# C20 — no data races or deadlocks; Close and Shutdown end serving exactly once  (**partial**)

What is proved is the logic that can be modelled: the lifecycle bookkeeping of `Serve`/`Close`/
`Shutdown` and the channel protocol of chunked deliveries for every schedule.  The Go memory model,
the scheduler and goroutines blocked in the kernel are not expressible in the executable model;
the `sched`/`accept` probes (the former also under the race detector) tie the model to the code.
-/
namespace SmtpV.Props.C20
open SmtpV SmtpV.Lifecycle SmtpV.Chunked

/-- **C20_second_close.**  Whatever the accept history, of two calls to `Close`/`Shutdown` the first
    ends serving and the second reports that the server is already closed. -/
theorem C20_second_close (script : List Outcome) (e1 e2 : Ending) (h1 : e1 ≠ .none) (h2 : e2 ≠ .none) :
    (run script [e1, e2]).ends = ["nil", "closed"] := by
  cases e1 <;> cases e2 <;> simp_all [run, endings]

/-- back-off delays never exceed one second -/
theorem nextDelay_le (d : Nat) (h : d ≤ 1000) : nextDelay d ≤ 1000 := by
  unfold nextDelay; split
  · omega
  · exact Nat.min_le_right _ _

theorem acceptLoop_delays (script : List Outcome) (a : Acc) (ha : a.delay ≤ 1000) (hd : ∀ d ∈ a.delays, d ≤ 1000) :
    ∀ d ∈ (acceptLoop script a).delays, d ≤ 1000 := by
  induction script generalizing a with
  | nil => simpa [acceptLoop] using hd
  | cons o t ih =>
    cases o with
    | conn => exact ih _ ha hd
    | temp =>
      apply ih
      · exact nextDelay_le _ ha
      · intro d hdm
        simp only [List.mem_append, List.mem_singleton] at hdm
        rcases hdm with h | h
        · exact hd d h
        · rw [h]; exact nextDelay_le _ ha
    | perm => simpa [acceptLoop] using hd

/-- **C20_temp_errors.**  `Serve` survives any run of temporary `Accept` errors: `n` of them in front
    of any accept history change neither what `Serve` returns nor how many connections it accepts —
    and every delay it sleeps is at most one second. -/
theorem C20_temp_errors (n : Nat) (rest : List Outcome) (es : List Ending) :
    (run (List.replicate n .temp ++ rest) es).serve = (run rest es).serve ∧
    (run (List.replicate n .temp ++ rest) es).accepted = (run rest es).accepted ∧
    ∀ d ∈ (run (List.replicate n .temp ++ rest) es).delays, d ≤ 1000 := by
  have key : ∀ (a : Acc), (acceptLoop (List.replicate n .temp ++ rest) a).ret =
      (acceptLoop rest { a with delay := (acceptLoop (List.replicate n .temp) a).delay,
                                delays := (acceptLoop (List.replicate n .temp) a).delays }).ret ∧
      (acceptLoop (List.replicate n .temp ++ rest) a).accepted =
      (acceptLoop rest { a with delay := (acceptLoop (List.replicate n .temp) a).delay,
                                delays := (acceptLoop (List.replicate n .temp) a).delays }).accepted := by
    induction n with
    | zero => intro a; simp [acceptLoop]
    | succ n ih =>
      intro a
      simp only [List.replicate_succ, List.cons_append, acceptLoop]
      have := ih { a with delay := nextDelay a.delay, delays := a.delays ++ [nextDelay a.delay] }
      simpa using this
  -- `ret` and `accepted` of the loop over `rest` do not depend on the delay bookkeeping
  have indep : ∀ (rest : List Outcome) (a b : Acc), a.accepted = b.accepted → a.ret = b.ret →
      (acceptLoop rest a).ret = (acceptLoop rest b).ret ∧ (acceptLoop rest a).accepted = (acceptLoop rest b).accepted := by
    intro rest
    induction rest with
    | nil => intro a b h1 h2; exact ⟨h2, h1⟩
    | cons o t ih =>
      intro a b h1 h2
      cases o with
      | conn => exact ih _ _ (by simp [h1]) h2
      | temp => exact ih _ _ h1 h2
      | perm => simp [acceptLoop, h1]
  obtain ⟨k1, k2⟩ := key {}
  obtain ⟨i1, i2⟩ := indep rest
    { ({} : Acc) with delay := (acceptLoop (List.replicate n .temp) {}).delay,
                      delays := (acceptLoop (List.replicate n .temp) {}).delays } {} rfl rfl
  refine ⟨?_, ?_, ?_⟩
  · simp only [run, k1, i1]
  · simp only [run, k2, i2]
  · exact acceptLoop_delays _ {} (by simp) (by simp)

/-! ### chunked deliveries: every schedule -/

/-- invariant of the repaired code: channel `t` only ever holds transfer `t`'s verdict -/
def Inv (res : Nat → Nat) (c : Conf) : Prop :=
  (∀ t b, c.chans[t]? = some b → ∀ v ∈ b, v = res t) ∧ OwnVerdict res c

theorem inv_init (res : Nat → Nat) (prog : List Op) : Inv res (Chunked.init prog) := by
  constructor
  · intro t b h; simp [Chunked.init] at h
  · intro p hp; simp [Chunked.init] at hp

theorem inv_gStep (res : Nat → Nat) (c : Conf) (t : Nat) (h : Inv res c) :
    Inv res (gStep false res c t) := by
  unfold gStep
  split
  · exact ⟨h.1, h.2⟩
  · simp only [Bool.false_eq_true, if_false]
    split
    · refine ⟨?_, h.2⟩
      intro t' b hb v hv
      by_cases ht : t' = t
      · subst ht
        rename_i hch
        have hlt : t' < c.chans.length := by
          have := List.getElem?_eq_some_iff.mp hch; exact this.1
        simp [hlt] at hb
        subst hb; simp at hv; exact hv
      · have : (c.chans.set t [res t])[t']? = c.chans[t']? := by
          simp [Ne.symm ht]
        rw [this] at hb
        exact h.1 t' b hb v hv
    · exact h
  · exact h

theorem inv_loopStep (res : Nat → Nat) (c : Conf) (h : Inv res c) : Inv res (loopStep c) := by
  unfold loopStep
  split
  · rename_i t _
    split
    · rename_i v rest hch
      constructor
      · intro t' b hb w hw
        by_cases ht : t' = t
        · subst ht
          have hlt : t' < c.chans.length := (List.getElem?_eq_some_iff.mp hch).1
          simp [hlt] at hb
          subst hb
          exact h.1 t' (v :: rest) hch w (List.mem_cons_of_mem _ hw)
        · have : (c.chans.set t rest)[t']? = c.chans[t']? := by
            simp [Ne.symm ht]
          rw [this] at hb
          exact h.1 t' b hb w hw
      · intro p hp
        simp at hp
        rcases hp with hp | rfl
        · exact h.2 p hp
        · exact h.1 t (v :: rest) hch v (by simp)
    · exact h
  · split
    · exact h
    · constructor
      · intro t' b hb w hw
        simp [List.getElem?_append] at hb
        split at hb
        · exact h.1 t' b hb w hw
        · cases hk : t' - c.chans.length with
          | zero => rw [hk] at hb; simp at hb; subst hb; simp at hw
          | succ k => rw [hk] at hb; simp at hb
      · exact h.2
    · exact ⟨h.1, h.2⟩
    · split <;> exact ⟨h.1, h.2⟩

/-- **C04_own_verdict / C20 (functional part).**  For every program of transfers and EVERY schedule of
    the command loop and the delivery goroutines, the verdict reported for a transfer is the backend's
    verdict for that very transfer. -/
theorem own_verdict_all_schedules (res : Nat → Nat) (prog : List Op) (sched : List Nat) :
    OwnVerdict res (exec false res (Chunked.init prog) sched) := by
  suffices h : ∀ c, Inv res c → Inv res (exec false res c sched) from (h _ (inv_init res prog)).2
  induction sched with
  | nil => intro c h; exact h
  | cons k ks ih =>
    intro c h
    simp only [exec, List.foldl_cons]
    apply ih
    cases k with
    | zero => exact inv_loopStep res c h
    | succ k => exact inv_gStep res c k h

/-- in the repaired code a delivery that wants to report is never blocked: its own channel is empty
    until it sends (it is the only sender and sends once) — no goroutine is left behind -/
theorem never_blocked_step (res : Nat → Nat) (c : Conf) (t : Nat)
    (hs : c.gs[t]? = some .sending) (hc : c.chans[t]? = some []) :
    (gStep false res c t).gs[t]? = some .done := by
  unfold gStep
  simp only [hs, Bool.false_eq_true, if_false, hc]
  have hlt : t < c.gs.length := (List.getElem?_eq_some_iff.mp hs).1
  simp [hlt]

/-- the pinned tree's behaviour, kept as a regression witness: with the goroutine reading
    `c.dataResult` at the end, a 7-step schedule hands transfer 0's verdict to transfer 1 -/
theorem pinned_tree_counterexample :
    ¬ OwnVerdict (fun t => 100 + t)
      (exec true (fun t => 100 + t) (Chunked.init [.openT, .abort, .openT, .last]) [0, 0, 0, 1, 1, 0, 0]) := by
  decide

/-- and a second stale delivery is stuck for ever on the (full) current channel: a leaked goroutine -/
theorem pinned_tree_leak :
    stuck true (exec true (fun t => 100 + t)
      (Chunked.init [.openT, .abort, .openT, .abort, .openT]) [0, 0, 0, 0, 0, 1, 1, 2, 2]) 1 = true := by
  decide

/-- non-vacuity: in the repaired semantics the same schedule reports transfer 1's own verdict -/
example : (exec false (fun t => 100 + t) (Chunked.init [.openT, .abort, .openT, .last]) [0, 0, 0, 1, 1, 2, 2, 0, 0]).replies =
    [(1, 101)] := by decide

/-! ### several listeners, a listener whose `Close` fails -/
open SmtpV.Lifecycle in
theorem endings2_closed (es : List Ending) (lerr : Bool) (n : Nat) :
    (endings2 es true lerr n).2 = n ∧ ∀ r ∈ (endings2 es true lerr n).1, r = "closed" ∨ r = "-" := by
  induction es with
  | nil => simp [endings2]
  | cons e t ih =>
    cases e <;> simp only [endings2, if_true] <;> refine ⟨ih.1, ?_⟩ <;> intro r hr <;>
      rcases List.mem_cons.mp hr with rfl | hr
    · exact Or.inl rfl
    · exact ih.2 r hr
    · exact Or.inl rfl
    · exact ih.2 r hr
    · exact Or.inr rfl
    · exact ih.2 r hr

open SmtpV.Lifecycle in
/-- **C20_close_ends_everything.**  `Close` on a server with any number of listeners and idle connections, whether or not a
    listener's own `Close` reports an error: no connection is left open, the error is reported, and every later
    `Close`/`Shutdown` reports that the server is closed. -/
theorem C20_close_ends_everything (nA nB : Nat) (errA errB : Bool) (rest : List Ending) :
    (run2 nA nB errA errB (.close :: rest)).opened = 0 ∧
    (run2 nA nB errA errB (.close :: rest)).ends.head? = some (if errA || errB then "listenerr" else "nil") ∧
    (∀ r ∈ (run2 nA nB errA errB (.close :: rest)).ends.tail, r = "closed" ∨ r = "-") ∧
    (run2 nA nB errA errB (.close :: rest)).serveA = "nil" ∧ (run2 nA nB errA errB (.close :: rest)).serveB = "nil" := by
  have h := endings2_closed rest (errA || errB) 0
  simp only [run2, endings2, Bool.false_eq_true, if_false]
  refine ⟨h.1, by simp, ?_, by simp, by simp⟩
  simpa using h.2

/-! ### the start of a chunked delivery against `Conn.Close` (model `LateStart`, fix c1a4e24) -/

/-- **C20_late_start_no_panic.**  Under every schedule of the command loop (any number of transfers, `Close` at any point) and the
    delivery goroutines, the repaired code never dereferences a nil session: no recovered panic (also C19). -/
theorem C20_late_start_no_panic (prog : List LateStart.Op) (sched : List Nat) :
    (LateStart.exec true { prog := prog } sched).panics = 0 :=
  LateStart.no_panic_any_schedule prog sched

/-- **C20_late_start_never_calls.**  A delivery that has not looked at the session by the time the connection is closed never calls the
    backend, however the goroutines are scheduled afterwards (also C08: no callback begins after Logout from a late start). -/
theorem C20_late_start_never_calls (sched : List Nat) (c : LateStart.Conf) (t : Nat) (h : LateStart.Dead c t) :
    t ∉ (LateStart.exec true c sched).dataCalls :=
  LateStart.late_start_never_calls sched c t h

/-- the tree before the repair: BDAT, the peer goes away, the goroutine gets to run — a recovered panic -/
theorem C20_late_start_pinned_panics :
    (LateStart.exec false { prog := [.spawn, .close] } [0, 0, 1]).panics = 1 := LateStart.pinned_tree_panics

/-- what no small patch closes: the goroutine sees the session, `Close` logs it out, then `Data` begins -/
theorem C20_late_start_window_remains :
    (LateStart.exec true { prog := [.spawn, .close] } [0, 1, 0, 1]).lateCalls = 1 := LateStart.window_remains

end SmtpV.Props.C20
