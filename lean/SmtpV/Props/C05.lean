import SmtpV.Proofs.CopyExact
import SmtpV.Proofs.Framing
/-!
# C05 — BDAT chunks are framed by octet count

Wire-model level (`Wire.W`: network segments below bufio below the line limiter; `Server.bufRead`, `discardN`,
`copyChunk`, `discardChunkN`; tied to conn.go by the `conv` correspondence).  `pending w` is the octet stream still to
be read — what is buffered followed by the segments to come.  The theorems say that reading a chunk takes exactly
the declared octets off that stream, for every segmentation and every buffer content.  Binary transparency of the
pipe and "one reply per BDAT" are decided by the monitors and the correspondence (DESIGN.md 0.3).
-/
namespace SmtpV.Props.C05
open SmtpV SmtpV.Wire SmtpV.Server

theorem sum_ge (segs : List Bytes) : segs.flatten.length ≤ (segs.map (fun s => s.length / 1 + 1)).sum := by
  induction segs with
  | nil => simp
  | cons s t ih =>
    simp only [List.flatten_cons, List.length_append, List.map_cons, List.sum_cons]
    have : s.length / 1 = s.length := Nat.div_one _
    omega

theorem fuel_enough (w : W) : (pending w).length ≤ wireFuel w := by
  have := sum_ge w.segs
  simp only [wireFuel, fuelOf, pending, List.length_append]
  omega

/-- **C05_frame_any_source.**  Copying a chunk into the delivery pipe with the limit lifted: whatever the source and the
    backend do (segments of any size, errors, a backend that stops reading), what has been taken off the stream is
    exactly its first `n - left` octets. -/
theorem C05_frame_any_source (fuel : Nat) (s : S) (k n cap : Nat) (hl : s.w.limit = 0) :
    (copyChunk fuel s k n cap).2.1 ≤ n ∧
    pending (copyChunk fuel s k n cap).1.w = (pending s.w).drop (n - (copyChunk fuel s k n cap).2.1) :=
  ⟨(copyChunk_frame fuel s k n cap hl).1, (copyChunk_frame fuel s k n cap hl).2.1⟩

/-- **C05_refused_chunk_discarded.**  A refused BDAT whose `n` declared octets are (or will be) on a live connection:
    exactly those `n` octets are skipped — the next command line starts at octet `n` of the stream — and the line
    limit is back in force.  Nothing depends on how the stream is cut into segments or on what bufio had buffered. -/
theorem C05_refused_chunk_discarded (s : S) (n : Nat) (hw : Live s.w) (hn : n ≤ (pending s.w).length) :
    pending (discardChunkN s (some n)).w = (pending s.w).drop n ∧
    (discardChunkN s (some n)).w.limit = s.cfg.maxLine ∧ Live (discardChunkN s (some n)).w := by
  unfold discardChunkN setW
  have hlive0 : Live { s.w with limit := 0 } := hw
  have hp0 : pending { s.w with limit := 0 } = pending s.w := rfl
  obtain ⟨h1, h2⟩ := discardN_exact (wireFuel s.w) { s.w with limit := 0 } n rfl hlive0 (by rw [hp0]; exact hn)
    (Nat.le_trans hn (fuel_enough s.w))
  have hr : ∀ (w : W) (m : Nat) (p : Bytes), pending (Wire.resume w m p) = pending w ∧ (Wire.resume w m p).limit = m ∧
      (Live w → Live (Wire.resume w m p)) := by
    intro w m p
    unfold Wire.resume
    split
    · rename_i hm
      have hm0 : m = 0 := by simpa using hm
      exact ⟨rfl, hm0.symm, fun h => h⟩
    · exact ⟨rfl, rfl, fun h => h⟩
  simp only []
  generalize hpp : ([] : Bytes) = p
  obtain ⟨r1, r2, r3⟩ := hr (discardN (wireFuel s.w) { s.w with limit := 0 } n) s.cfg.maxLine p
  refine ⟨?_, r2, r3 h2⟩
  · show pending (Wire.resume (discardN (wireFuel s.w) { s.w with limit := 0 } n) s.cfg.maxLine p) = _
    rw [r1, ← hp0, ← h1]

/-- **C05_failed_chunk_skipped.**  A chunk that the delivery did not take completely (the backend returned early, the
    pipe was closed): the server copies as far as it gets and discards the rest — on a live connection holding the `n`
    declared octets, exactly `n` are gone and the next command starts right behind them. -/
theorem C05_failed_chunk_skipped (s : S) (k n cap : Nat) (hl : s.w.limit = 0) (hw : Live s.w) (hcap : 0 < cap)
    (hn : n ≤ (pending s.w).length) (f1 : Nat) :
    pending (discardN (wireFuel (copyChunk f1 s k n cap).1.w) (copyChunk f1 s k n cap).1.w (copyChunk f1 s k n cap).2.1) =
      (pending s.w).drop n :=
  copy_then_discard_exact s k n cap hl hw hcap hn f1 _ (fuel_enough _)

/-- **C05_segmentation_independent.**  Two connections carrying the same octet stream in different segmentations (and
    with different amounts already buffered) are at the same point of the stream after the chunk has been skipped. -/
theorem C05_segmentation_independent (s1 s2 : S) (n : Nat) (h1 : Live s1.w) (h2 : Live s2.w)
    (hsame : pending s1.w = pending s2.w) (hn : n ≤ (pending s1.w).length) :
    pending (discardChunkN s1 (some n)).w = pending (discardChunkN s2 (some n)).w := by
  rw [(C05_refused_chunk_discarded s1 n h1 hn).1, (C05_refused_chunk_discarded s2 n h2 (by rw [← hsame]; exact hn)).1, hsame]

/-! ### non-vacuity: payload that looks like protocol, split in the middle of the look-alike, part of it buffered -/

example : pending ({ buf := "\r\n.\r".b, segs := ["\nMAIL FROM:<ba".b, "it@x>\r\nNOOP\r\n".b] } : W) =
    "\r\n.\r\nMAIL FROM:<bait@x>\r\nNOOP\r\n".b := by decide +kernel

def exS : S :=
  { w := { buf := "\r\n.\r".b, segs := ["\nMAIL FROM:<ba".b, "it@x>\r\nNOOP\r\n".b] }, cfg := { maxLine := 40 } }

example : pending (discardChunkN exS (some 25)).w = "NOOP\r\n".b := by decide +kernel

/-- **C05_payload_delivered_exactly.**  Copying a chunk of `n` declared octets from a live connection that holds them, into a
    running delivery that reads to the end: the delivery is handed exactly the first `n` octets of the stream, appended to what
    it had — whatever the segmentation of the stream, whatever sits in bufio's buffer, whatever the copy buffer size — and the
    stream continues exactly behind them.  (Chunk after chunk, the backend's reader therefore yields the concatenation of the
    payloads.) -/
theorem C05_payload_delivered_exactly (s : Server.S) (k n cap fuel : Nat) (hl : s.w.limit = 0) (hw : Server.Live s.w)
    (hcap : 0 < cap) (hn : n ≤ (Server.pending s.w).length) (hf : n ≤ fuel) (hh : Server.Hungry s k) :
    Server.octs (Server.copyChunk fuel s k n cap).1 k = Server.octs s k ++ (Server.pending s.w).take n ∧
    Server.pending (Server.copyChunk fuel s k n cap).1.w = (Server.pending s.w).drop n ∧
    (Server.copyChunk fuel s k n cap).2.1 = 0 := by
  obtain ⟨h1, h2, h3, _⟩ := Server.copyChunk_exact fuel s k n cap hl hw hcap hn hf hh
  exact ⟨h3, h2, h1⟩

end SmtpV.Props.C05
