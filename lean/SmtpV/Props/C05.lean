import SmtpV.Model.Server
import SmtpV.Spec.Monitors
/-! # C05 (theorems follow) -/
namespace SmtpV.Props.C05
end SmtpV.Props.C05
