import SmtpV.Model.Server
import SmtpV.Spec.Monitors
/-! # C04 (theorems follow) -/
namespace SmtpV.Props.C04
end SmtpV.Props.C04
