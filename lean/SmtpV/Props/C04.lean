import SmtpV.Props.C20
import SmtpV.Spec.Monitors
/-!
# C04 — one well-formed reply per command, reporting that command's outcome

Clause (d), "never the outcome of an earlier or aborted transaction", for chunked transfers is the
L3 theorem below (proved in Props/C20.lean for every program and every schedule).  Clauses (a)–(c)
(syntax, count/order, enhanced-code class) are judged by `Spec.Mon.check4` on recorded traces and
tied by the correspondence; their theorems are work in progress.
-/
namespace SmtpV.Props.C04
open SmtpV SmtpV.Chunked

/-- **C04_own_verdict.**  For every sequence of transfers (opened, aborted, completed) and every
    interleaving of the command loop with the delivery goroutines, the verdict sent to the client for
    a transfer is the backend's verdict for that very transfer. -/
theorem C04_own_verdict (res : Nat → Nat) (prog : List Op) (sched : List Nat) :
    OwnVerdict res (exec false res (Chunked.init prog) sched) :=
  SmtpV.Props.C20.own_verdict_all_schedules res prog sched

end SmtpV.Props.C04
