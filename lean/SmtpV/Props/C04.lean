import SmtpV.Props.C20
import SmtpV.Spec.Monitors
import SmtpV.Proofs.ReplyWF
import SmtpV.Proofs.ReplyML
import SmtpV.Proofs.ReplyCount
/-!
# C04 — one well-formed reply per command, reporting that command's outcome

Clause (d), "never the outcome of an earlier or aborted transaction", for chunked transfers is the
L3 theorem below (proved in Props/C20.lean for every program and every schedule).  Clauses (a)–(c)
(syntax, count/order, enhanced-code class) are judged by `Spec.Mon.check4` on recorded traces and
tied by the correspondence; for the syntax and the class of replies see `C04_reply_syntax` below, for the count in plain SMTP
`C04_one_reply_per_command` (`Proofs/ReplyCount.lean`).
-/
namespace SmtpV.Props.C04
open SmtpV SmtpV.Chunked

/-- **C04_own_verdict.**  For every sequence of transfers (opened, aborted, completed) and every
    interleaving of the command loop with the delivery goroutines, the verdict sent to the client for
    a transfer is the backend's verdict for that very transfer. -/
theorem C04_own_verdict (res : Nat → Nat) (prog : List Op) (sched : List Nat) :
    OwnVerdict res (exec false res (Chunked.init prog) sched) :=
  SmtpV.Props.C20.own_verdict_all_schedules res prog sched

open SmtpV.Spec SmtpV.Reply SmtpV.ReplyRT in
/-- **C04_reply_syntax.**  Whatever one-line reply the server's renderer writes — any code 100..999, any enhanced code
    (set, or derived from the code when unset), any text without LF: the strict RFC 5321 recogniser that judges the
    implementation accepts it as exactly one reply with that code, and the enhanced status code it reads off the line is
    the one rendered — for an unset code that is `class.0.0` of the reply's own class (`C17_unset_class`). -/
theorem C04_reply_syntax (code : Nat) (h1 : 100 ≤ code) (h2 : code ≤ 999) (enh : Enh) (msg : Bytes)
    (hm : ∀ b ∈ msg, b ≠ 10) (he : EnhOk (effEnh code enh)) :
    ReplySyntax.parse (render code enh [msg]) =
      some [{ code := code, lines := [enhBytes (effEnh code enh) ++ [32] ++ msg] }] ∧
    ReplySyntax.enhOf (enhBytes (effEnh code enh) ++ [32] ++ msg) =
      some ((effEnh code enh).a.toNat, (effEnh code enh).b.toNat, (effEnh code enh).c.toNat) :=
  ⟨reply_syntax_single code h1 h2 enh msg hm he, enhOf_render _ he msg⟩

open SmtpV.Spec SmtpV.Reply SmtpV.ReplyRT SmtpV.Text in
/-- **C04_reply_syntax_multiline.**  The same for a text of any number of lines (empty lines, lines that look like codes …):
    what the renderer writes is accepted by the strict recogniser as exactly one reply with that code — every line but the last
    a continuation line — whose lines are the text lines, each behind the enhanced status code. -/
theorem C04_reply_syntax_multiline (code : Nat) (h1 : 100 ≤ code) (h2 : code ≤ 999) (enh : Enh) (msg : Bytes)
    (he : EnhOk (effEnh code enh)) :
    ReplySyntax.parse (render code enh [msg]) =
      some [{ code := code, lines := (splitByte msg 10).map (fun l => tok (effEnh code enh) ++ l) }] :=
  reply_syntax code h1 h2 enh msg he

open SmtpV.Server in
/-- **C04_one_reply_per_command.**  Plain SMTP, on the server model: a command other than AUTH/STARTTLS (which have
    intermediate replies of their own) — HELO/EHLO, MAIL, RCPT, VRFY, NOOP, RSET, QUIT, BDAT, DATA and the unimplemented
    verbs, with any arguments, in any state, whatever the backend does (refusals, errors, panics, early returns) and
    however a chunk arrives or fails to arrive — is answered with exactly ONE write on the socket; an accepted DATA with
    two (354 and the final reply).  The 421 written by `recover` for a handler that panicked is that one reply. -/
theorem C04_one_reply_per_command (s : S) (cmd arg : Bytes) (hl : s.cfg.lmtp = false)
    (hv : verbOf cmd ≠ .auth ∧ verbOf cmd ≠ .starttls ∧ verbOf cmd ≠ .unknown) :
    nw (dispatch s cmd arg) = nw s + (if verbOf cmd = .data ∧ dataAccepted s arg = true then 2 else 1) :=
  nw_dispatch s cmd arg hl hv

open SmtpV.Server in
/-- **C04_error_reply_and_notice.**  An unrecognised or malformed command gets its one reply, plus the one closing
    notice exactly when the server gives up — and then the connection is closed. -/
theorem C04_error_reply_and_notice (s : S) (code : Nat) (enh : SmtpV.Spec.Enh) (t : String) :
    nw (protocolError s code enh t) = nw s + 1 ∨
    (nw (protocolError s code enh t) = nw s + 2 ∧ (protocolError s code enh t).c.closed = true) :=
  nw_protocolError s code enh t

open SmtpV.Server in
/-- **C04_lmtp_one_reply_per_recipient.**  LMTP, on the server model: every command other than AUTH/STARTTLS is answered with
    one write; an accepted LAST chunk — delivered or failed — with one per accepted recipient; an accepted DATA with 354 and then
    one per accepted recipient (or, when a backend without per-recipient statuses panics, 354 and the single 421). -/
theorem C04_lmtp_one_reply_per_recipient (s : S) (cmd arg : Bytes) (hl : s.cfg.lmtp = true)
    (hv : verbOf cmd ≠ .auth ∧ verbOf cmd ≠ .starttls ∧ verbOf cmd ≠ .unknown) :
    nw (dispatch s cmd arg) = nw s + 1 ∨
    (verbOf cmd = .bdat ∧ nw (dispatch s cmd arg) = nw s + s.c.recipients.length) ∨
    (verbOf cmd = .data ∧ (nw (dispatch s cmd arg) = nw s + 1 + s.c.recipients.length ∨ nw (dispatch s cmd arg) = nw s + 2)) :=
  nw_dispatch_lmtp s cmd arg hl hv

open SmtpV.Server in
/-- **C04_starttls_replies.**  STARTTLS is answered with one reply when it is refused and with `220` alone when the handshake
    succeeds (everything after it travels inside TLS); when the handshake fails one more reply (550) follows in plaintext. -/
theorem C04_starttls_replies (s : S) :
    nw (handleStartTLS s) = nw s + 1 ∨ nw (handleStartTLS s) = nw s + 2 :=
  nw_handleStartTLS s

open SmtpV.Server in
/-- **C04_auth_replies.**  AUTH: a refused command (or a mechanism that refuses to start, or a panic) gets one reply; an exchange gets
    one reply per step of the mechanism — each 334 challenge, then the final 235 or the mechanism's error — plus one when the client
    cancels with `*` or sends something that is not base64 (501 / 454).  `sc` counts the mechanism's steps in the trace. -/
theorem C04_auth_replies (s : S) (arg : Bytes) :
    (owed (handleAuth s arg) = nw s + 1 ∧ sc (handleAuth s arg).1 = sc s) ∨
    (∃ e, e ≤ 1 ∧ owed (handleAuth s arg) = nw s + (sc (handleAuth s arg).1 - sc s) + e ∧ sc s < sc (handleAuth s arg).1) :=
  owed_handleAuth s arg

end SmtpV.Props.C04
