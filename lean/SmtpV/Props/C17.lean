import SmtpV.Model.Client
import SmtpV.Spec.Codec
/-! # C17 (theorems follow) -/
namespace SmtpV.Props.C17
end SmtpV.Props.C17
