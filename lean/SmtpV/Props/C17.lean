import SmtpV.Model.Client
import SmtpV.Model.Reply
import SmtpV.Spec.Codec
import SmtpV.Proofs.ReplyRT
/-!
# C17 — backend errors reach the peer and the client with code, class and text intact

Model level: `Reply.render`/`renderError`/`dataStatus` (conn.go: writeResponse, writeError,
dataErrorToStatus) composed with `Client.readResponse` + `toSMTPErr` (client.go).  Tied to the code by
the `reply`, `tosmtperr`, `rt` and `e2e` probes.  The theorems below cover every reply code 100–999,
every enhanced code of non-negative int64 numbers and EVERY message text, one line or many
(`C17_roundtrip`).  What the theorems do not cover: a reply without any enhanced code on the wire
(`NoEnhancedCode`, or an unset code on a reply of class 3), which the client cannot tell from one that
carries a code when its text looks like one — decided by the law judge on the probes.
-/
namespace SmtpV.Props.C17
open SmtpV SmtpV.Text SmtpV.Spec SmtpV.Reply SmtpV.Client SmtpV.ReplyRT

/-- the text line a one-line reply puts on the wire (without CRLF) -/
def wireLine (code : Nat) (e : Enh) (msg : Bytes) : Bytes := natToDec code ++ [32] ++ enhBytes e ++ [32] ++ msg

theorem EnhOk_ne_noEnh (e : Enh) (h : EnhOk e) : (e == noEnh) = false := by
  cases hb : e == noEnh with
  | false => rfl
  | true =>
    have : e = noEnh := by simpa using hb
    subst this
    obtain ⟨h0, _⟩ := h
    simp [noEnh] at h0

/-- what `writeResponse` writes for a one-line text is exactly one CRLF-terminated line -/
theorem render_single (code : Nat) (enh : Enh) (msg : Bytes) (hm : ∀ b ∈ msg, b ≠ 10) (he : EnhOk (effEnh code enh)) :
    render code enh [msg] = wireLine code (effEnh code enh) msg ++ crlf := by
  have hl : textLines [msg] = [msg] := by
    simp only [textLines, List.intercalate, List.intersperse, List.flatten_cons, List.flatten_nil, List.append_nil]
    exact splitByte_noSep msg LF hm
  simp only [render, hl, List.dropLast_singleton, List.flatMap_nil, List.nil_append, List.getLast?_singleton,
    renderLine, EnhOk_ne_noEnh _ he, Bool.false_eq_true, if_false, wireLine, SP]
  simp [List.append_assoc]

/-- **C17_roundtrip_single.**  A backend `SMTPError{code, enh, msg}` with a one-line message, rendered by the
    server and read by the client (which expected another code), comes back as an equal SMTPError — with the
    enhanced code the server actually sent (`X.0.0` of the reply's class when unset). -/
theorem C17_roundtrip_single (expect code : Nat) (h1 : 100 ≤ code) (h2 : code ≤ 999) (enh : Enh) (msg : Bytes)
    (hm : ∀ b ∈ msg, b ≠ 10) (he : EnhOk (effEnh code enh)) (hx : codeMatches expect code = false) (rest : List Bytes) :
    render code enh [msg] = wireLine code (effEnh code enh) msg ++ crlf ∧
    readResponse expect (wireLine code (effEnh code enh) msg :: rest) =
      (.smtpErr { code := code, enh := effEnh code enh, msg := msg }, rest) := by
  refine ⟨render_single code enh msg hm he, ?_⟩
  have := readResponse_single expect code h1 h2 (effEnh code enh) he msg hm rest
  simpa [wireLine, hx] using this

/-- **C17_unset_class.**  An unset enhanced code goes out as `X.0.0` of the reply's class. -/
theorem C17_unset_class (code : Nat) (h : code / 100 = 2 ∨ code / 100 = 4 ∨ code / 100 = 5) :
    effEnh code notSet = ⟨(code / 100 : Nat), 0, 0⟩ ∧ EnhOk (effEnh code notSet) := by
  have e : effEnh code notSet = ⟨(code / 100 : Nat), 0, 0⟩ := by
    unfold effEnh
    rcases h with h | h | h <;> simp [h, notSet]
  refine ⟨e, ?_⟩
  rw [e]
  have : code / 100 ≤ 5 := by omega
  simp only [EnhOk]
  refine ⟨by omega, by omega, by omega, by omega, by omega, by omega⟩

/-- **C17_generic_envelope.**  Any other error from session creation, Mail or Rcpt: `451 4.0.0 <text>`. -/
theorem C17_generic_envelope (expect : Nat) (m : Bytes) (hm : ∀ b ∈ m, b ≠ 10) (hx : codeMatches expect 451 = false) :
    renderError 451 ⟨4, 0, 0⟩ (.er m) = wireLine 451 ⟨4, 0, 0⟩ m ++ crlf ∧
    readResponse expect [wireLine 451 ⟨4, 0, 0⟩ m] = (.smtpErr { code := 451, enh := ⟨4, 0, 0⟩, msg := m }, []) := by
  have e : effEnh 451 ⟨4, 0, 0⟩ = ⟨4, 0, 0⟩ := by decide
  have he : EnhOk (effEnh 451 ⟨4, 0, 0⟩) := by rw [e]; simp [EnhOk]
  have := C17_roundtrip_single expect 451 (by decide) (by decide) ⟨4, 0, 0⟩ m hm he hx []
  rw [e] at this
  exact this

/-- **C17_generic_data.**  Any other error from Data: `554 5.0.0 Error: transaction failed: <text>`. -/
theorem C17_generic_data (expect : Nat) (m : Bytes) (hm : ∀ b ∈ m, b ≠ 10) (hx : codeMatches expect 554 = false) :
    dataStatus (.er m) = (554, ⟨5, 0, 0⟩, "Error: transaction failed: ".b ++ m) ∧
    readResponse expect [wireLine 554 ⟨5, 0, 0⟩ ("Error: transaction failed: ".b ++ m)] =
      (.smtpErr { code := 554, enh := ⟨5, 0, 0⟩, msg := "Error: transaction failed: ".b ++ m }, []) := by
  refine ⟨rfl, ?_⟩
  have e : effEnh 554 ⟨5, 0, 0⟩ = ⟨5, 0, 0⟩ := by decide
  have he : EnhOk (effEnh 554 ⟨5, 0, 0⟩) := by rw [e]; simp [EnhOk]
  have hm' : ∀ b ∈ "Error: transaction failed: ".b ++ m, b ≠ 10 := by
    intro b hb
    rcases List.mem_append.mp hb with h | h
    · have : ("Error: transaction failed: ".b).all (fun b => b != 10) = true := by decide +kernel
      simpa using List.all_eq_true.mp this b h
    · exact hm b h
  have := (C17_roundtrip_single expect 554 (by decide) (by decide) ⟨5, 0, 0⟩ _ hm' he hx []).2
  rw [e] at this
  exact this

/-! ### any number of lines -/

/-- the lines `writeResponse` puts on the wire for the text lines `ls` (without CRLF) -/
def wireLines (code : Nat) (e : Enh) (ls : List Bytes) : List Bytes :=
  ls.dropLast.map (contLine code e) ++ (match ls.getLast? with | some l => [lastLine code e l] | none => [])

theorem join_cons (first : Bytes) (tl : List Bytes) :
    List.intercalate [10] (first :: tl) = first ++ tl.flatMap fun l => 10 :: l := by
  induction tl generalizing first with
  | nil => simp [List.intercalate, List.intersperse]
  | cons a tl ih =>
    rw [List.intercalate_cons_cons, ih a]
    simp

/-- what `writeResponse` writes is exactly these lines, each followed by CRLF -/
theorem render_lines (code : Nat) (enh : Enh) (msg : Bytes) (he : EnhOk (effEnh code enh)) :
    render code enh [msg] = (wireLines code (effEnh code enh) (splitByte msg 10)).flatMap (· ++ crlf) := by
  have hl : textLines [msg] = splitByte msg 10 := by
    simp [textLines, List.intercalate, List.intersperse, LF]
  have hne := EnhOk_ne_noEnh _ he
  simp only [render, hl, wireLines, List.flatMap_append, List.flatMap_map]
  congr 1
  · induction (splitByte msg 10).dropLast with
    | nil => rfl
    | cons l ls ih =>
      simp only [List.flatMap_cons, ih]
      simp [renderLine, contLine, tok, hne, SP, List.append_assoc]
  · cases (splitByte msg 10).getLast? with
    | none => rfl
    | some l => simp [renderLine, lastLine, tok, hne, SP, List.append_assoc]

/-- **C17_roundtrip.**  For EVERY message text — one line or many, empty lines, lines that themselves start with
    something that looks like an enhanced code — a backend `SMTPError{code, enh, msg}` rendered by the server
    (the enhanced code on every line) is turned back by the client into an equal SMTPError. -/
theorem C17_roundtrip (expect code : Nat) (h1 : 100 ≤ code) (h2 : code ≤ 999) (enh : Enh) (msg : Bytes)
    (he : EnhOk (effEnh code enh)) (hx : codeMatches expect code = false) (rest : List Bytes) :
    readResponse expect (wireLines code (effEnh code enh) (splitByte msg 10) ++ rest) =
      (.smtpErr { code := code, enh := effEnh code enh, msg := msg }, rest) := by
  have hjoin := join_split msg 10
  have hno := splitByte_noSepIn msg 10
  have hnil := splitByte_ne_nil msg 10
  generalize splitByte msg 10 = ls at hjoin hno hnil
  -- `ls = first :: tl`
  cases ls with
  | nil => exact absurd rfl hnil
  | cons first tl =>
    rw [join_cons] at hjoin
    cases htl : tl.getLast? with
    | none =>
      -- one line
      have : tl = [] := by simpa using htl
      subst this
      simp only [List.flatMap_nil, List.append_nil] at hjoin
      subst hjoin
      have := readResponse_single expect code h1 h2 (effEnh code enh) he first (hno first (by simp)) rest
      simpa [wireLines, lastLine, tok, hx, List.append_assoc] using this
    | some last =>
      -- two or more lines: `tl = mid ++ [last]`
      obtain ⟨mid, rfl⟩ : ∃ mid, tl = mid ++ [last] := List.getLast?_eq_some_iff.mp htl
      have hm : ∀ l ∈ mid, ∀ b ∈ l, b ≠ 10 := fun l hl => hno l (by simp [hl])
      have hl : ∀ b ∈ last, b ≠ 10 := hno last (by simp)
      have hf : ∀ b ∈ first, b ≠ 10 := hno first (by simp)
      have := readResponse_multi expect code h1 h2 (effEnh code enh) he first mid last hf hm hl rest
      have hw : wireLines code (effEnh code enh) (first :: (mid ++ [last])) ++ rest =
          contLine code (effEnh code enh) first ::
            (mid.map (contLine code (effEnh code enh)) ++ lastLine code (effEnh code enh) last :: rest) := by
        have e1 : (first :: (mid ++ [last])).dropLast = first :: mid := by
          rw [show first :: (mid ++ [last]) = (first :: mid) ++ [last] by simp, List.dropLast_concat]
        have e2 : (first :: (mid ++ [last])).getLast? = some last := by
          rw [show first :: (mid ++ [last]) = (first :: mid) ++ [last] by simp, List.getLast?_concat]
        simp [wireLines, e1, e2]
      rw [hw, this, hjoin]
      simp [hx]

/-! ### non-vacuity -/

example : render 550 notSet ["no such user".b] = "550 5.0.0 no such user\r\n".b := by decide +kernel
example : readResponse 250 ["550 5.0.0 no such user".b] =
    (.smtpErr { code := 550, enh := ⟨5, 0, 0⟩, msg := "no such user".b }, []) := by decide +kernel
/-- the multi-line shape the theorem does not cover is still computed by the same definitions -/
example : (readResponse 250 ["554-5.6.0 first".b, "554 5.6.0 second".b]).1 =
    .smtpErr { code := 554, enh := ⟨5, 6, 0⟩, msg := "first\nsecond".b } := by decide +kernel

end SmtpV.Props.C17
