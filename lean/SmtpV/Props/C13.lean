import SmtpV.Model.Server
import SmtpV.Spec.Monitors
/-! # C13 (theorems follow) -/
namespace SmtpV.Props.C13
end SmtpV.Props.C13
