import SmtpV.Model.Server
import SmtpV.Model.StatusChans
import SmtpV.Proofs.StatusChans
/-!
# C13 — LMTP: one status per accepted recipient, in order, correctly attributed

Three layers: the specification of attribution (`Spec.Mon.expectedStatuses`, also the judge of the
implementation's traces), the channel mechanism of conn.go's `statusCollector` (`Model/StatusChans.lean`), and
the bookkeeping the server model uses (`Server.applyStatuses` / `Server.collect`, tied to the code by the
`conv` correspondence).  The theorems connect the three.
-/
namespace SmtpV.Props.C13
open SmtpV SmtpV.Spec SmtpV.Spec.Mon SmtpV.StatusChans

/-- **C13_mechanism.**  The per-address buffered channels, filled with the return value and read in RCPT order,
    deliver exactly the specified attribution — for every recipient list (duplicates, any order) and every
    sequence of in-contract `SetStatus` calls. -/
theorem C13_mechanism (rcpts : List Bytes) (calls : List (Bytes × BRes)) (ret : BRes) (cs : Chans)
    (h : setAll (create rcpts) calls = some cs) :
    run rcpts calls ret = some (expectedStatuses rcpts calls ret) :=
  run_eq_spec rcpts calls ret cs h

theorem go_fst (calls : List (Bytes × BRes)) (ret : BRes) (rest seen : List Bytes) :
    (expectedStatuses.go calls ret rest seen).map (·.1) = rest := by
  induction rest generalizing seen with
  | nil => simp [expectedStatuses.go]
  | cons a rest ih => simp [expectedStatuses.go, ih]

/-- **C13_one_per_recipient.**  Exactly one status per accepted recipient, in RCPT order, each labelled with its
    recipient. -/
theorem C13_one_per_recipient (rcpts : List Bytes) (calls : List (Bytes × BRes)) (ret : BRes) :
    (expectedStatuses rcpts calls ret).map (·.1) = rcpts := by
  simp [expectedStatuses, go_fst]

theorem collect_go_eq (q : List (Bytes × BRes)) (fill : BRes) (rest seen : List Bytes) :
    Server.collect.go q fill rest seen = expectedStatuses.go q fill rest seen := by
  induction rest generalizing seen with
  | nil => simp [Server.collect.go, expectedStatuses.go]
  | cons a rest ih => simp [Server.collect.go, expectedStatuses.go, ih, Server.countOf, Mon.countOf]

/-- **C13_model_is_spec.**  The server model collects the final replies with the specification's own function. -/
theorem C13_model_is_spec (rcpts : List Bytes) (q : List (Bytes × BRes)) (fill : BRes) :
    Server.collect rcpts q fill = expectedStatuses rcpts q fill := by
  simp [Server.collect, expectedStatuses, collect_go_eq]

/-- the channel state that corresponds to the model's flat queue `q` of accepted calls -/
def Agree (rcpts : List Bytes) (cs : Chans) (q : List (Bytes × BRes)) : Prop :=
  ∀ b, (b ∈ rcpts → ∃ c, chanOf cs b = some c ∧ c.cap = Mon.countOf b rcpts ∧ c.q = mine q b) ∧
       (b ∉ rcpts → chanOf cs b = none)

theorem mine_length (q : List (Bytes × BRes)) (a : Bytes) :
    (mine q a).length = Server.countOf a (q.map (·.1)) := by
  induction q with
  | nil => simp [mine, Server.countOf]
  | cons x q ih =>
    simp only [mine, Server.countOf, List.filter_cons, List.map_cons] at ih ⊢
    split <;> simp_all

/-- **C13_contract_agrees.**  The model's check of the backend's calls accepts exactly when the channel
    mechanism does not panic, and then the accepted calls are all of them. -/
theorem C13_contract_agrees (rcpts : List Bytes) (calls : List (Bytes × BRes)) :
    ∀ (q : List (Bytes × BRes)) (cs : Chans), Agree rcpts cs q →
      ((Server.applyStatuses rcpts calls q).2 = true ↔ (setAll cs calls).isSome = true) ∧
      ((Server.applyStatuses rcpts calls q).2 = true → (Server.applyStatuses rcpts calls q).1 = q ++ calls) := by
  induction calls with
  | nil => intro q cs _; simp [Server.applyStatuses, setAll]
  | cons call rest ih =>
    intro q cs hag
    obtain ⟨a, r⟩ := call
    by_cases hmem : a ∈ rcpts
    · obtain ⟨c, hc, hcap, hq⟩ := (hag a).1 hmem
      have hcont : rcpts.contains a = true := by simpa using hmem
      by_cases hfull : Server.countOf a (q.map (·.1)) ≥ Server.countOf a rcpts
      · -- the channel is full: both panic
        have hlen : ¬ c.q.length < c.cap := by
          rw [hq, mine_length, hcap]; simpa [Server.countOf, Mon.countOf] using hfull
        have hs : setStatus cs a r = none := by
          cases hs : setStatus cs a r with
          | none => rfl
          | some cs' =>
            obtain ⟨c', hc', hlt, _⟩ := setStatus_spec cs a r cs' hs
            rw [hc] at hc'; cases hc'; exact absurd hlt hlen
        simp [Server.applyStatuses, hcont, hfull, setAll, hs]
      · have hlen : c.q.length < c.cap := by
          rw [hq, mine_length, hcap]; simpa [Server.countOf, Mon.countOf] using hfull
        -- the send succeeds
        have hex : ∃ cs', setStatus cs a r = some cs' := by
          clear ih hag
          induction cs with
          | nil => simp [chanOf] at hc
          | cons c0 cs ihc =>
            simp only [chanOf_cons] at hc
            simp only [setStatus]
            split at hc
            · rename_i h0; cases hc; simp [h0, hlen]
            · rename_i h0
              obtain ⟨cs', h'⟩ := ihc hc
              simp [h0, h']
        obtain ⟨cs', hs⟩ := hex
        obtain ⟨c', hc', _, hupd⟩ := setStatus_spec cs a r cs' hs
        rw [hc] at hc'; cases hc'
        have hag' : Agree rcpts cs' (q ++ [(a, r)]) := by
          intro b
          constructor
          · intro hb
            rw [hupd b]
            by_cases hba : b = a
            · subst hba
              refine ⟨{ c with q := c.q ++ [r] }, by simp, hcap, ?_⟩
              simp [mine, hq, List.filter_append]
            · obtain ⟨cb, hcb, hcapb, hqb⟩ := (hag b).1 hb
              refine ⟨cb, by simp [hba, hcb], hcapb, ?_⟩
              have : ((a, r).1 == b) = false := by simp [Ne.symm hba]
              simp [mine, hqb, List.filter_append, List.filter_cons, this]
          · intro hb
            rw [hupd b]
            have hba : b ≠ a := fun e => hb (e ▸ hmem)
            simp [hba, (hag b).2 hb]
        obtain ⟨i1, i2⟩ := ih (q ++ [(a, r)]) cs' hag'
        have hnf : ¬ Server.countOf a (q.map (·.1)) ≥ Server.countOf a rcpts := hfull
        simp only [Server.applyStatuses, hcont, Bool.not_true, Bool.false_eq_true, if_false, hnf, setAll, hs]
        refine ⟨i1, fun h => ?_⟩
        rw [i2 h]; simp
    · -- unknown recipient: both panic
      have hcont : rcpts.contains a = false := by simpa using hmem
      have hnone := (hag a).2 hmem
      have hs : setStatus cs a r = none := by
        cases hs : setStatus cs a r with
        | none => rfl
        | some cs' =>
          obtain ⟨c', hc', _, _⟩ := setStatus_spec cs a r cs' hs
          rw [hnone] at hc'; cases hc'
      simp [Server.applyStatuses, hmem, setAll, hs]

theorem agree_create (rcpts : List Bytes) : Agree rcpts (create rcpts) [] := by
  intro b
  constructor
  · intro hb
    exact ⟨_, chanOf_create rcpts b hb, rfl, by simp [mine]⟩
  · intro hb
    cases h : chanOf (create rcpts) b with
    | none => rfl
    | some c =>
      have hm : c ∈ create rcpts := List.mem_of_find?_eq_some h
      have ha : (c.addr == b) = true := by
        have := List.find?_some (p := fun (x : Chan) => x.addr == b) (l := create rcpts) h
        exact this
      simp only [create, List.mem_map] at hm
      obtain ⟨a, ha', rfl⟩ := hm
      have : a = b := by simpa using ha
      subst this
      exact absurd (List.mem_eraseDups.mp ha') hb

/-- **C13_attribution.**  End of the chain for the model: when the backend's calls are accepted, the statuses the
    server model writes — one per accepted recipient, in order — are what the channel mechanism of the code
    delivers, which is the specified attribution. -/
theorem C13_attribution (rcpts : List Bytes) (calls : List (Bytes × BRes)) (ret : BRes)
    (h : (Server.applyStatuses rcpts calls []).2 = true) :
    Server.collect rcpts (Server.applyStatuses rcpts calls []).1 ret = expectedStatuses rcpts calls ret ∧
    run rcpts calls ret = some (expectedStatuses rcpts calls ret) := by
  obtain ⟨i1, i2⟩ := C13_contract_agrees rcpts calls [] (create rcpts) (agree_create rcpts)
  have hq := i2 h
  simp only [List.nil_append] at hq
  refine ⟨by rw [hq, C13_model_is_spec], ?_⟩
  have := i1.mp h
  cases hs : setAll (create rcpts) calls with
  | none => simp [hs] at this
  | some cs => exact C13_mechanism rcpts calls ret cs hs

/-! ### non-vacuity: a duplicate recipient in a different position, statuses set out of RCPT order -/

example : expectedStatuses ["a".b, "b".b, "a".b] [("b".b, .ok), ("a".b, .er "one".b), ("a".b, .er "two".b)] .ok =
    [("a".b, .er "one".b), ("b".b, .ok), ("a".b, .er "two".b)] := by decide +kernel

example : (Server.applyStatuses ["a".b, "b".b, "a".b] [("b".b, .ok), ("a".b, .er "one".b)] []).2 = true := by
  decide +kernel

/-! ### a BDAT LAST that cannot be delivered (the repaired behaviour) -/

/-- **C13_failed_last_one_per_recipient.**  In LMTP, whatever made the copy of a LAST chunk fail — the backend gave up with
    an error, returned early, panicked, or the source failed — and whatever statuses the backend had set: the response the
    server model writes is the status list of exactly the accepted recipients, in RCPT order (one reply each, naming its
    recipient: `writeLmtpStatuses`). -/
theorem C13_failed_last_one_per_recipient (s : Server.S) (k : Nat) (err : BRes) (hl : s.cfg.lmtp = true) :
    ∃ sts, Server.bdatFailReplies s k true err = Server.writeLmtpStatuses s sts ∧ sts.map (·.1) = s.c.recipients := by
  unfold Server.bdatFailReplies
  simp only [hl, Bool.and_self, if_true]
  have hm : ∀ (f : Bytes → BRes) (l : List Bytes), (l.map (fun a => (a, f a))).map (·.1) = l := by
    intro f l; induction l with
    | nil => rfl
    | cons a t ih => simp only [List.map_cons, ih]
  split
  · exact ⟨_, rfl, hm (fun _ => err) _⟩
  · split
    · exact ⟨_, rfl, hm _ _⟩
    · refine ⟨_, rfl, ?_⟩
      rw [C13_model_is_spec]
      exact C13_one_per_recipient _ _ _

end SmtpV.Props.C13
