import SmtpV.Proofs.CallLines
import SmtpV.Proofs.AuthLines
/-!
# C15, whole calls — one command line per protocol step

`Props/C15.lean` shows that the MAIL and RCPT lines contain no CR or LF; here the whole call is followed through
the client model (`Client.C.call`): the implicit greeting/EHLO/HELO, the command, the reply — and what reaches the
connection is counted in whole lines.
-/
namespace SmtpV.Props.C15
open SmtpV SmtpV.Text SmtpV.Client SmtpV.OneLine

/-- **C15_call_whole_lines.**  Any of Hello, Verify, Mail, Rcpt, Reset, Noop, Quit, Extension — with any argument
    values, against any peer — made while no message body is being written: what the call writes is a sequence of
    whole lines `x CRLF` with no CR or LF inside `x`; at most one line for the call itself plus at most two for the
    implicit EHLO/HELO when no hello has been done yet; and the client is left in a state where the same holds for
    the next call (so it holds along every history of such calls). -/
theorem C15_call_whole_lines (c : C) (k : Call) (hs : k.simple = true) (hi : Idle c) (hn : validLine c.localName = true) :
    ∃ ls : List Bytes, (c.call k).2.written = c.carry ++ ls.flatten ∧ ls.length ≤ helloBudget c + 1 ∧
      (∀ l ∈ ls, IsLine l) ∧ Idle (c.call k).1 ∧ validLine (c.call k).1.localName = true := by
  obtain ⟨h1, h2⟩ := call_ol c k hs hi hn
  obtain ⟨ls, e, n, m⟩ := h1.lines
  exact ⟨ls, by rw [h2, e], n, m, h1.idle, h1.name⟩

/-- **C15_one_line_per_call.**  Once the hello exchange is done, a call writes at most ONE command line. -/
theorem C15_one_line_per_call (c : C) (k : Call) (hs : k.simple = true) (hi : Idle c) (hn : validLine c.localName = true)
    (hd : c.didHello = true) :
    (c.call k).2.written = c.carry ∨ ∃ x, NoNL x ∧ (c.call k).2.written = c.carry ++ x ++ crlf := by
  obtain ⟨ls, e, n, m, _, _⟩ := C15_call_whole_lines c k hs hi hn
  have hb : helloBudget c = 0 := by simp [helloBudget, hd]
  rw [hb] at n
  match ls, n, m, e with
  | [], _, _, e => left; simpa using e
  | [l], _, m, e =>
    obtain ⟨x, rfl, hx⟩ := m l (by simp)
    right; exact ⟨x, hx, by simpa using e⟩

/-- **C15_auth_whole_lines.**  The `Auth` call, for every mechanism name, initial response, script of the caller's `sasl.Client`
    (responses of any octets, errors, early stops) and every peer: what is written is a sequence of whole lines `x CRLF` with no CR
    or LF inside `x` — the implicit EHLO/HELO, the AUTH line, then one line per round of the exchange (a base64 response or the
    cancel token); a mechanism name containing CR or LF writes nothing of its own (repaired in b0235b7); and the client is left idle
    with its host name clean, so that the same holds for whatever call follows. -/
theorem C15_auth_whole_lines (c : C) (mech : Bytes) (ir : Option Bytes) (steps : List (Option (Option Bytes)))
    (hi : Idle c) (hn : validLine c.localName = true) :
    ∃ ls : List Bytes, (c.call (.auth mech ir steps)).2.written = c.carry ++ ls.flatten ∧
      ls.length ≤ helloBudget c + steps.length + 3 ∧ (∀ l ∈ ls, IsLine l) ∧
      Idle (c.call (.auth mech ir steps)).1 ∧ validLine (c.call (.auth mech ir steps)).1.localName = true := by
  obtain ⟨h1, h2⟩ := auth_call_ol c mech ir steps hi hn
  obtain ⟨ls, e, n, m⟩ := h1.lines
  exact ⟨ls, by rw [h2, e], n, m, h1.idle, h1.name⟩

/-- the premises hold for a new client and are kept by every history of such calls -/
theorem C15_history_keeps_premises (cs : List Call) (hcs : ∀ k ∈ cs, k.simple = true) :
    ∀ c : C, Idle c → validLine c.localName = true →
      Idle (cs.foldl (fun c k => (c.call k).1) c) ∧ validLine (cs.foldl (fun c k => (c.call k).1) c).localName = true := by
  induction cs with
  | nil => intro c hi hn; exact ⟨hi, hn⟩
  | cons k rest ih =>
    intro c hi hn
    obtain ⟨_, _, _, _, hi', hn'⟩ := C15_call_whole_lines c k (hcs k (by simp)) hi hn
    exact ih (fun k' hk' => hcs k' (by simp [hk'])) _ hi' hn'

example : Idle ({} : C) ∧ validLine ({} : C).localName = true := ⟨⟨rfl, rfl⟩, by decide +kernel⟩

end SmtpV.Props.C15
