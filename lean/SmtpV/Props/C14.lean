import SmtpV.Proofs.XtextRT
import SmtpV.Spec.Codec
/-!
# C14 — envelope and options survive the client-to-server trip unchanged

Proved: the xtext law on its whole domain.  The utf-8-addr-xtext / unitext laws and the end-to-end
envelope law are judged on the implementation (rt probe: every Unicode scalar value) and tied by the
correspondence of all five codec functions; their theorems are work in progress.
-/
namespace SmtpV.Props.C14
open SmtpV SmtpV.Xtext

/-- **xtext_roundtrip.**  `decodeXtext (encodeXtext s) = s` for every string over 0x00–0x7F — used for
    ENVID, AUTH and rfc822 ORCPT values. -/
theorem C14_xtext_roundtrip (s : Bytes) (h : ∀ b ∈ s, b.toNat < 128) : decodeXtext (encodeXtext s) = some s :=
  xtext_roundtrip s h

/-- the judge used on the implementation agrees: inside the domain the law is what is checked -/
theorem C14_monitor_model (s : Bytes) (h : Spec.Codec.inDomainX s = true) :
    Spec.Codec.check14 "x" s (decodeXtext (encodeXtext s)) = [] := by
  have hs : ∀ b ∈ s, b.toNat < 128 := by
    simpa [Spec.Codec.inDomainX] using h
  simp [Spec.Codec.check14, h, xtext_roundtrip s hs]

/-- non-vacuity: TAB, '+', '=', SP, DEL, NUL all survive -/
example : decodeXtext (encodeXtext [9, 43, 61, 32, 127, 0, 65]) = some [9, 43, 61, 32, 127, 0, 65] := by decide +kernel
example : encodeXtext [9, 43] = "+09+2B".b := by decide +kernel

end SmtpV.Props.C14
