import SmtpV.Model.Client
import SmtpV.Spec.Codec
/-! # C14 (theorems follow) -/
namespace SmtpV.Props.C14
end SmtpV.Props.C14
