import SmtpV.Proofs.XtextRT
import SmtpV.Spec.Codec
import SmtpV.Proofs.ParamTrip
/-!
# C14 — envelope and options survive the client-to-server trip unchanged

Proved: the xtext law on its whole domain, and the whole trip of the MAIL and RCPT parameters from the client model to the
server model on the printable-ASCII part of the domain (`Proofs/ParamTrip.lean`).  The utf-8-addr-xtext / unitext laws,
RRVS times and non-ASCII values are judged on the implementation (rt probe: every Unicode scalar value; e2e probe) and
tied by the correspondence of all five codec functions.
-/
namespace SmtpV.Props.C14
open SmtpV SmtpV.Xtext

/-- **xtext_roundtrip.**  `decodeXtext (encodeXtext s) = s` for every string over 0x00–0x7F — used for
    ENVID, AUTH and rfc822 ORCPT values. -/
theorem C14_xtext_roundtrip (s : Bytes) (h : ∀ b ∈ s, b.toNat < 128) : decodeXtext (encodeXtext s) = some s :=
  xtext_roundtrip s h

/-- the judge used on the implementation agrees: inside the domain the law is what is checked -/
theorem C14_monitor_model (s : Bytes) (h : Spec.Codec.inDomainX s = true) :
    Spec.Codec.check14 "x" s (decodeXtext (encodeXtext s)) = [] := by
  have hs : ∀ b ∈ s, b.toNat < 128 := by
    simpa [Spec.Codec.inDomainX] using h
  simp [Spec.Codec.check14, h, xtext_roundtrip s hs]

/-- non-vacuity: TAB, '+', '=', SP, DEL, NUL all survive -/
example : decodeXtext (encodeXtext [9, 43, 61, 32, 127, 0, 65]) = some [9, 43, 61, 32, 127, 0, 65] := by decide +kernel
example : encodeXtext [9, 43] = "+09+2B".b := by decide +kernel

/-! ### the whole trip of the parameters, on the models of client and server -/

/-- **C14_tokenise.**  `strings.Fields` applied to the client's parameter string (each parameter preceded by one space)
    gives back exactly the parameters — any number of them, any printing non-space ASCII content. -/
theorem C14_tokenise (ts : List Bytes) (hts : ∀ t ∈ ts, t ≠ [] ∧ t.all graphic = true) : Text.fields (spaced ts) = ts :=
  fields_spaced ts hts

/-- **C14_params_parse.**  The server's `parseArgs` applied to the client's rendering of any list of keyword/value
    parameters (distinct upper-case keywords, values without space and `=` — what every encoder of the client produces)
    is exactly that list, in order. -/
theorem C14_params_parse (ps : List (Bytes × Bytes)) (hps : ∀ p ∈ ps, ParamOk p) (hnd : (ps.map (·.1)).Nodup) :
    Parse.parseArgs (spaced (ps.map renderParam)) = some ps := parseArgs_spaced ps hps hnd

/-- **C14_mail_options_trip.**  Every `MailOptions` value of the printable-ASCII domain (BODY unset/7BIT/8BITMIME/
    BINARYMIME, SIZE below 2^32, REQUIRETLS, SMTPUTF8, RET unset/FULL/HDRS, any printable-ASCII ENVID, AUTH unset / `<>` /
    any dot-string mailbox) — every combination of them — written by the client model and read by the server model
    (tokeniser, parameter parser, parameter switch with its decoders) arrives as exactly the same options. -/
theorem C14_mail_options_trip (ext : List (Bytes × Bytes)) (cfg : Spec.Cfg) (o : Client.MailOptions)
    (he : AllExt ext) (hc : CfgOn cfg o) (hd : MailDomain o) :
    ∃ ps, Client.mailParams ext (some o) = some ps ∧
      ∃ args, Parse.parseArgs ps = some args ∧
        Server.mailParams cfg args {} false = .ok (expected o, (expected o).body == "BINARYMIME".b) :=
  mail_options_trip ext cfg o he hc hd

/-- **C14_rcpt_options_trip.**  The same for RCPT: every valid NOTIFY set and every printable-ASCII rfc822 original
    recipient, alone or together. -/
theorem C14_rcpt_options_trip (ext : List (Bytes × Bytes)) (cfg : Spec.Cfg) (o : Client.RcptOptions)
    (he : Client.hasExt ext "DSN" = true) (hc : cfg.dsn = true) (hd : RcptDomain o) :
    ∃ ps, Client.rcptParams ext o = some ps ∧
      ∃ args, Parse.parseArgs ps = some args ∧ Server.rcptParams cfg args {} = .ok (expectedRcpt o) :=
  rcpt_options_trip ext cfg o he hc hd

/-- non-vacuity: a concrete option set of the domain, and what it looks like on the wire -/
example : Client.mailParams [("8BITMIME".b, []), ("BINARYMIME".b, []), ("SIZE".b, []), ("REQUIRETLS".b, []),
      ("SMTPUTF8".b, []), ("DSN".b, []), ("AUTH".b, "PLAIN".b)]
    (some { size := 42, utf8 := true, ret := "HDRS".b, envid := "a+b =c".b, auth := some "u@d".b }) =
    some " BODY=8BITMIME SIZE=42 SMTPUTF8 RET=HDRS ENVID=a+2Bb+20+3Dc AUTH=u@d".b := by decide +kernel

end SmtpV.Props.C14
