import SmtpV.Proofs.LineTrip
import SmtpV.Model.Client
import SmtpV.Model.Server
/-!
# C14 / C11 — the whole MAIL line, from the client's call to the backend's callback (on the models)

`Client.mailLine` builds the command line from the address and the options; the client writes it followed by CRLF.
The server's command loop hands the line to `parseCmd`, the verb to `dispatch` and the argument to `handleMail`:
`cutPrefixFold`, `strings.TrimSpace`, the path parser, `parseArgs`, the parameter switch — and then `Session.Mail`.
The theorems below compose all of that: for every 7-bit dot-string mailbox and every option value of the domain of
`C14_mail_options_trip` the backend's `Mail` is called with exactly the client's address and options.
-/
namespace SmtpV.Props.C14
open SmtpV SmtpV.Spec SmtpV.Text SmtpV.Parse SmtpV.Server SmtpV.Props.C11 SmtpV.LineTrip

theorem lit_MAILFROM : "MAIL FROM:<".b = [77, 65, 73, 76, SP] ++ ("FROM:".b ++ [60]) := by decide +kernel
theorem lit_RCPTTO : "RCPT TO:<".b = [82, 67, 80, 84, SP] ++ ("TO:".b ++ [60]) := by decide +kernel
theorem lit_gt : ">".b = [62] := by decide +kernel
theorem lit_MAILv : "MAIL".b = [77, 65, 73, 76] := by decide +kernel
theorem lit_RCPTv : "RCPT".b = [82, 67, 80, 84] := by decide +kernel

theorem equalFold_self (a : Bytes) : equalFold a a = true := by simp [equalFold]

theorem cutPrefixFold_self (p r : Bytes) : cutPrefixFold (p ++ r) p = some r := by
  unfold cutPrefixFold
  simp [equalFold_self]

/-- the argument of the client's MAIL/RCPT line behind the keyword: `<` mailbox `>` parameters -/
def pathArg (frm ps : Bytes) : Bytes := [60] ++ frm ++ [62] ++ ps

theorem ascii_lit (s : String) (h : (s.b.all fun b => b.toNat < 128) = true) : Ascii s.b := by
  intro b hb
  have := (List.all_eq_true.mp h) b hb
  simpa using this

/-- facts about `pathArg` for a 7-bit mailbox and a spaced parameter string -/
theorem pathArg_facts (frm : Bytes) (ts : List Bytes) (hf : Ascii frm) (hts : ∀ t ∈ ts, t ≠ [] ∧ t.all graphic = true) :
    Ascii (pathArg frm (spaced ts)) ∧ (∀ b, (pathArg frm (spaced ts)).getLast? = some b → graphic b = true) := by
  constructor
  · unfold pathArg
    refine Ascii.append (Ascii.append (Ascii.append ?_ hf) ?_) (spaced_ascii ts hts)
    · intro b hb; simp at hb; subst hb; decide
    · intro b hb; simp at hb; subst hb; decide
  · intro b hb
    unfold pathArg at hb
    by_cases hs : spaced ts = []
    · rw [hs, List.append_nil, getLast?_append_ne _ _ (by simp)] at hb
      simp at hb; subst hb; decide
    · rw [getLast?_append_ne _ _ hs] at hb
      exact spaced_last ts hts b hb

/-- the path parser on `pathArg` of a plain mailbox -/
theorem parsePath_pathArg (lp dom ps : Bytes) (hlp : lp ≠ []) (hlpok : lp.all lpOk = true)
    (hdom : dom ≠ []) (hdomok : dom.all domOk = true) (hlast : dom.getLast? ≠ some 64) :
    parsePath (pathArg (lp ++ [64] ++ dom) ps) = some (lp ++ [64] ++ dom, ps) := by
  have := C11_exact_mailbox lp dom ps hlp hlpok hdom hdomok hlast
  unfold pathArg
  simpa using this

theorem parseReversePath_pathArg (lp dom ps : Bytes) (hlp : lp ≠ []) (hlpok : lp.all lpOk = true)
    (hdom : dom ≠ []) (hdomok : dom.all domOk = true) (hlast : dom.getLast? ≠ some 64) :
    parseReversePath (pathArg (lp ++ [64] ++ dom) ps) = some (lp ++ [64] ++ dom, ps) := by
  unfold parseReversePath
  have hnp : hasPrefix (pathArg (lp ++ [64] ++ dom) ps) "<>".b = false := by
    obtain ⟨c, lp', rfl⟩ : ∃ c lp', lp = c :: lp' := by
      cases lp with
      | nil => exact absurd rfl hlp
      | cons c t => exact ⟨c, t, rfl⟩
    have hc : lpOk c = true := by simp only [List.all_cons, Bool.and_eq_true] at hlpok; exact hlpok.1
    have : c ≠ 62 := by
      intro e; subst e; simp [lpOk, isDotStringStop] at hc
    simp [pathArg, hasPrefix, show "<>".b = [60, 62] by decide +kernel, List.isPrefixOf, Ne.symm this]
  rw [hnp]
  simp only [Bool.false_eq_true, if_false]
  exact parsePath_pathArg lp dom ps hlp hlpok hdom hdomok hlast

/-- **C14_mail_line_trip.**  The whole MAIL line.  For every 7-bit mailbox `local@domain` with a dot-string local part and
    every option value of the domain of `C14_mail_options_trip`, against a greeted server (session `id`, no chunked transfer
    open) that offers and has enabled the extensions (`effCfg`: REQUIRETLS counts as enabled only under TLS): the client model produces a line; that line followed by CRLF is parsed
    by the server model's `parseCmd` into the verb `MAIL` and an argument; and `handleMail` on that argument is exactly the
    `Session.Mail` call with the client's address and the client's options (`mailCall` emits the `mail` event with them and
    answers with the backend's result). -/
theorem C14_mail_line_trip (ext : List (Bytes × Bytes)) (o : Client.MailOptions) (s : S)
    (he : AllExt ext) (hc : CfgOn (effCfg s) o) (hd : MailDomain o)
    (lp dom : Bytes) (hlp : lp ≠ []) (hlpok : lp.all lpOk = true) (hdom : dom ≠ []) (hdomok : dom.all domOk = true)
    (hlast : dom.getLast? ≠ some 64) (hascii : Ascii (lp ++ [64] ++ dom)) (hvl : Client.validLine (lp ++ [64] ++ dom) = true)
    (hhelo : s.c.helo ≠ []) (hb : s.c.bdat = none) (id : Nat) (hs : s.c.session = some id) :
    ∃ line, Client.mailLine ext (lp ++ [64] ++ dom) (some o) = some line ∧
      ∃ arg, parseCmd (line ++ [CR, LF]) = some ("MAIL".b, arg) ∧
        handleMail s arg =
          mailCall (setBinarymime s ((expected o).body == "BINARYMIME".b)) id (lp ++ [64] ++ dom) (expected o) := by
  have hts : ∀ t ∈ (mailToks o).map renderParam, t ≠ [] ∧ t.all graphic = true := by
    intro t ht
    obtain ⟨p, hp, rfl⟩ := List.mem_map.mp ht
    exact renderParam_token p (mailToks_ok o hd p hp)
  obtain ⟨hpa, hpl⟩ := pathArg_facts (lp ++ [64] ++ dom) ((mailToks o).map renderParam) hascii hts
  let ps := spaced ((mailToks o).map renderParam)
  let pa := pathArg (lp ++ [64] ++ dom) ps
  have hline : Client.mailLine ext (lp ++ [64] ++ dom) (some o) = some ([77, 65, 73, 76, SP] ++ ("FROM:".b ++ pa)) := by
    unfold Client.mailLine
    rw [hvl, client_mailParams ext o he hd]
    simp only [Bool.not_true, Bool.false_eq_true, if_false, lit_MAILFROM, lit_gt, pa, ps, pathArg, List.append_assoc]
  refine ⟨_, hline, "FROM:".b ++ pa, ?_, ?_⟩
  · have hA : Ascii ("FROM:".b ++ pa) := Ascii.append (ascii_lit "FROM:" (by decide +kernel)) hpa
    have := parseCmd_verb 77 65 73 76 ("FROM:".b ++ pa) (by decide +kernel) (by intro b hb; simp at hb; rcases hb with rfl | rfl | rfl | rfl <;> decide)
      (by decide) hA (by simp [show "FROM:".b = [70, 82, 79, 77, 58] by decide +kernel])
      (by
        intro b t e
        rw [show "FROM:".b = [70, 82, 79, 77, 58] by decide +kernel] at e
        simp only [List.cons_append, List.cons.injEq] at e
        rw [← e.1]; exact (by decide : isSpaceRune (70 : Byte).toNat = false))
      (by
        intro b hb
        rw [getLast?_append_ne _ _ (by simp [pa, pathArg])] at hb
        exact hpl b hb)
    rw [lit_MAILv]
    simpa [List.append_assoc] using this
  · unfold handleMail
    have h1 : s.c.helo.isEmpty = false := by
      cases h : s.c.helo with
      | nil => exact absurd h hhelo
      | cons _ _ => rfl
    simp only [h1, hb, Option.isSome_none, Bool.false_eq_true, if_false, cutPrefixFold_self]
    have hts2 : trimSpace pa = pa :=
      trimSpace_id pa hpa (by intro b t e; simp only [pa, pathArg, List.cons_append, List.nil_append, List.cons.injEq] at e; rw [← e.1]; exact (by decide : isSpaceRune (60 : Byte).toNat = false))
        (fun b hb => graphic_NoSp b (hpl b hb))
    rw [hts2, parseReversePath_pathArg lp dom ps hlp hlpok hdom hdomok hlast]
    simp only [ps, parseArgs_spaced _ (mailToks_ok o hd) (mailToks_keys o), server_mailToks (effCfg s) o hc hd, hs]
    rfl

/-- the `Session.Rcpt` call and the reply to it: the tail of `handleRcpt` (conn.go), spelled out to state the theorem -/
def rcptCall (s : S) (id : Nat) (rcpt : Bytes) (opts : RcptOpts) : S × Bool :=
  let (r, s) := popRcpt s
  let s := emit s (.rcpt id rcpt opts r)
  match r with
  | .ok =>
    let s := { s with c := { s.c with recipients := s.c.recipients ++ [rcpt] } }
    (replyB s 250 ⟨2, 0, 0⟩ ["I'll make sure <".b ++ printable rcpt ++ "> gets this".b], false)
  | .panic => (s, true)
  | e => (write s (Reply.renderError 451 ⟨4, 0, 0⟩ e), false)

/-- **C14_rcpt_line_trip.**  The whole RCPT line, in the same way: for every 7-bit dot-string mailbox and every NOTIFY set /
    rfc822 original recipient of the domain of `C14_rcpt_options_trip`, in a transaction that is open and below the recipient
    limit, the client's line followed by CRLF is parsed into the verb `RCPT` and an argument on which `handleRcpt` is
    exactly the `Session.Rcpt` call with the client's address and options. -/
theorem C14_rcpt_line_trip (ext : List (Bytes × Bytes)) (o : Client.RcptOptions) (s : S)
    (he : Client.hasExt ext "DSN" = true) (hc : s.cfg.dsn = true) (hd : RcptDomain o)
    (lp dom : Bytes) (hlp : lp ≠ []) (hlpok : lp.all lpOk = true) (hdom : dom ≠ []) (hdomok : dom.all domOk = true)
    (hlast : dom.getLast? ≠ some 64) (hascii : Ascii (lp ++ [64] ++ dom)) (hvl : Client.validLine (lp ++ [64] ++ dom) = true)
    (hfrom : s.c.fromReceived = true) (hb : s.c.bdat = none) (id : Nat) (hs : s.c.session = some id)
    (hmax : s.cfg.maxRcpt = 0 ∨ s.c.recipients.length < s.cfg.maxRcpt) :
    ∃ line, Client.rcptLine ext (lp ++ [64] ++ dom) (some o) = some line ∧
      ∃ arg, parseCmd (line ++ [CR, LF]) = some ("RCPT".b, arg) ∧
        handleRcpt s arg = rcptCall s id (lp ++ [64] ++ dom) (expectedRcpt o) := by
  have hts : ∀ t ∈ (rcptToks o).map renderParam, t ≠ [] ∧ t.all graphic = true := by
    intro t ht
    obtain ⟨p, hp, rfl⟩ := List.mem_map.mp ht
    exact renderParam_token p (rcptToks_ok o hd p hp)
  obtain ⟨hpa, hpl⟩ := pathArg_facts (lp ++ [64] ++ dom) ((rcptToks o).map renderParam) hascii hts
  let ps := spaced ((rcptToks o).map renderParam)
  let pa := pathArg (lp ++ [64] ++ dom) ps
  have hline : Client.rcptLine ext (lp ++ [64] ++ dom) (some o) = some ([82, 67, 80, 84, SP] ++ ("TO:".b ++ pa)) := by
    unfold Client.rcptLine
    rw [hvl]
    simp only [client_rcptParams ext o he hd]
    simp only [Bool.not_true, Bool.false_eq_true, if_false, lit_RCPTTO, lit_gt, pa, ps, pathArg, List.append_assoc]
  refine ⟨_, hline, "TO:".b ++ pa, ?_, ?_⟩
  · have hA : Ascii ("TO:".b ++ pa) := Ascii.append (ascii_lit "TO:" (by decide +kernel)) hpa
    have := parseCmd_verb 82 67 80 84 ("TO:".b ++ pa) (by decide +kernel) (by intro b hb; simp at hb; rcases hb with rfl | rfl | rfl | rfl <;> decide)
      (by decide) hA (by simp [show "TO:".b = [84, 79, 58] by decide +kernel])
      (by
        intro b t e
        rw [show "TO:".b = [84, 79, 58] by decide +kernel] at e
        simp only [List.cons_append, List.cons.injEq] at e
        rw [← e.1]; exact (by decide : isSpaceRune (84 : Byte).toNat = false))
      (by
        intro b hb
        rw [getLast?_append_ne _ _ (by simp [pa, pathArg])] at hb
        exact hpl b hb)
    rw [lit_RCPTv]
    simpa [List.append_assoc] using this
  · unfold handleRcpt
    simp only [hfrom, hb, Option.isSome_none, Bool.not_true, Bool.false_eq_true, if_false, cutPrefixFold_self]
    have hts2 : trimSpace pa = pa :=
      trimSpace_id pa hpa (by intro b t e; simp only [pa, pathArg, List.cons_append, List.nil_append, List.cons.injEq] at e; rw [← e.1]; exact (by decide : isSpaceRune (60 : Byte).toNat = false))
        (fun b hb => graphic_NoSp b (hpl b hb))
    rw [hts2, parsePath_pathArg lp dom ps hlp hlpok hdom hdomok hlast]
    have hm : (s.cfg.maxRcpt > 0 && s.c.recipients.length ≥ s.cfg.maxRcpt) = false := by
      rcases hmax with h | h
      · simp [h]
      · simp; intro _; omega
    simp only [hm, Bool.false_eq_true, if_false, ps, parseArgs_spaced _ (rcptToks_ok o hd) (rcptToks_keys o),
      server_rcptToks s.cfg o hc hd, hs]
    rfl

/-- what `mailCall` and `rcptCall` hand to the backend: the first thing either does is the callback, recorded with exactly
    the arguments given -/
theorem popMail_evs (s : S) : (popMail s).2.evs = s.evs := by
  unfold popMail; split <;> rfl

theorem popMail_closed (s : S) : (popMail s).2.c = s.c := by
  unfold popMail; split <;> rfl

theorem mailCall_event (s : S) (id : Nat) (frm : Bytes) (opts : MailOpts) :
    ∃ tl, (mailCall s id frm opts).1.evs = tl ++ Ev.mail id frm opts (popMail s).1 :: s.evs := by
  unfold mailCall
  by_cases hcl : s.c.closed = true
  · refine ⟨[], ?_⟩
    cases hr : (popMail s).1 <;> simp [hr, replyB, write, emit, hcl, popMail_evs, popMail_closed]
  · cases hr : (popMail s).1 with
    | ok => exact ⟨[Ev.w (Reply.render 250 ⟨2, 0, 0⟩ ["Roger, accepting mail from <".b ++ printable frm ++ ">".b])], by
        simp [hr, replyB, write, emit, hcl, popMail_evs, popMail_closed]⟩
    | panic => exact ⟨[], by simp [hr, emit, popMail_evs]⟩
    | se c e m => exact ⟨[Ev.w (Reply.renderError 451 ⟨4, 0, 0⟩ (.se c e m))], by
        simp [hr, write, emit, hcl, popMail_evs, popMail_closed]⟩
    | er m => exact ⟨[Ev.w (Reply.renderError 451 ⟨4, 0, 0⟩ (.er m))], by
        simp [hr, write, emit, hcl, popMail_evs, popMail_closed]⟩

/-! ### non-vacuity: a concrete line through the same functions -/

def exExt : List (Bytes × Bytes) := [("8BITMIME".b, []), ("BINARYMIME".b, []), ("SIZE".b, []), ("REQUIRETLS".b, []),
  ("SMTPUTF8".b, []), ("DSN".b, []), ("AUTH".b, "PLAIN".b)]

example : Client.mailLine exExt "first.last@example.org".b (some { size := 42, ret := "HDRS".b }) =
    some "MAIL FROM:<first.last@example.org> BODY=8BITMIME SIZE=42 RET=HDRS".b := by decide +kernel

example : parseCmd "MAIL FROM:<first.last@example.org> BODY=8BITMIME SIZE=42 RET=HDRS\r\n".b =
    some ("MAIL".b, "FROM:<first.last@example.org> BODY=8BITMIME SIZE=42 RET=HDRS".b) := by decide +kernel

def mailDecodeEx : Option (Bytes × Nat × Bytes) :=
    match cutPrefixFold "FROM:<first.last@example.org> BODY=8BITMIME SIZE=42 RET=HDRS".b "FROM:".b with
    | none => none
    | some a =>
      match parseReversePath (trimSpace a) with
      | none => none
      | some (frm, rest) =>
        match parseArgs rest with
        | none => none
        | some args =>
          match mailParams { dsn := true } args {} false with
          | .ok (o, _) => some (frm, o.size, o.ret)
          | .refuse _ _ _ => none

example : mailDecodeEx = some ("first.last@example.org".b, 42, "HDRS".b) := by decide +kernel

end SmtpV.Props.C14
