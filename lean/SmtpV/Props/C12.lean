import SmtpV.Model.Server
import SmtpV.Spec.Monitors
/-!
# C12 — EHLO advertises exactly what the configuration enables, and honours it
-/
namespace SmtpV.Props.C12
open SmtpV SmtpV.Spec SmtpV.Server SmtpV.Reply

/-- **C12_caps_exact.**  For every configuration (all limits, all mechanism lists — not only the
    3072 enumerated points) and TLS state, the capability lines the server prints are exactly the
    specification table. -/
theorem C12_caps_exact (s : S) : caps s = Mon.capsTable s.cfg s.c.tls := by
  simp [caps, Mon.capsTable, authAllowed, Text.natToDec, Mon.natToDec, SP]

/-- the backend accepts the next session (scripted `ok`, or an exhausted script) -/
def NsAccepts (s : S) : Prop := s.be.ns = [] ∨ ∃ t, s.be.ns = BRes.ok :: t

/-- what an accepted EHLO/LHLO writes: `250-Hello <domain>` followed by exactly the table -/
theorem C12_ehlo_reply (s : S) (arg domain : Bytes)
    (hd : Parse.parseHelloArgument arg = some domain) (hs : s.c.session = none)
    (hns : NsAccepts s) (hcl : s.c.closed = false) :
    (handleGreet s true arg).1.evs.head? =
      some (.w (render 250 noEnh (("Hello ".b ++ domain) :: Mon.capsTable s.cfg s.c.tls))) := by
  rw [← C12_caps_exact]
  unfold handleGreet
  rcases hns with h | ⟨t, h⟩ <;>
    simp [hd, hs, popNs, h, replyB, write, emit, hcl, caps, authAllowed, setHelo, newSession, greetReply]

/-- **C12_helo_none.**  HELO lists no extension: its reply is the single line `250 2.0.0 Hello <domain>`. -/
theorem C12_helo_none (s : S) (arg domain : Bytes)
    (hd : Parse.parseHelloArgument arg = some domain) (hs : s.c.session = none)
    (hns : NsAccepts s) (hcl : s.c.closed = false) :
    (handleGreet s false arg).1.evs.head? = some (.w (render 250 ⟨2, 0, 0⟩ ["Hello ".b ++ domain])) := by
  unfold handleGreet
  rcases hns with h | ⟨t, h⟩ <;>
    simp [hd, hs, popNs, h, replyB, write, emit, hcl, setHelo, newSession, greetReply]

/-- **C12_disabled_504 (MAIL).**  A parameter of an extension the configuration disables, standing
    first in the parameter list, is refused with 504 — whatever follows it. -/
theorem C12_disabled_504_mail (cfg : Cfg) (v : Bytes) (rest : List (Bytes × Bytes)) (o : MailOpts) (bm : Bool) :
    (cfg.utf8 = false → mailParams cfg (("SMTPUTF8".b, v) :: rest) o bm = .refuse 504 ⟨5, 5, 4⟩ "SMTPUTF8 is not implemented") ∧
    (cfg.reqtls = false → mailParams cfg (("REQUIRETLS".b, v) :: rest) o bm = .refuse 504 ⟨5, 5, 4⟩ "REQUIRETLS is not implemented") ∧
    (cfg.binmime = false → mailParams cfg (("BODY".b, "BINARYMIME".b) :: rest) o bm = .refuse 504 ⟨5, 5, 4⟩ "BINARYMIME is not implemented") ∧
    (cfg.dsn = false → mailParams cfg (("RET".b, v) :: rest) o bm = .refuse 504 ⟨5, 5, 4⟩ "RET is not implemented") ∧
    (cfg.dsn = false → mailParams cfg (("ENVID".b, v) :: rest) o bm = .refuse 504 ⟨5, 5, 4⟩ "ENVID is not implemented") := by
  have hup : Text.toUpper "BINARYMIME".b = "BINARYMIME".b := by decide +kernel
  refine ⟨?_, ?_, ?_, ?_, ?_⟩ <;> intro h <;> rw [mailParams] <;> simp [h, String.b_inj, hup]

/-- **C12_disabled_504 (RCPT).** -/
theorem C12_disabled_504_rcpt (cfg : Cfg) (v : Bytes) (rest : List (Bytes × Bytes)) (o : RcptOpts) :
    (cfg.dsn = false → rcptParams cfg (("NOTIFY".b, v) :: rest) o = .refuse 504 ⟨5, 5, 4⟩ "NOTIFY is not implemented") ∧
    (cfg.dsn = false → rcptParams cfg (("ORCPT".b, v) :: rest) o = .refuse 504 ⟨5, 5, 4⟩ "ORCPT is not implemented") ∧
    (cfg.rrvs = false → rcptParams cfg (("RRVS".b, v) :: rest) o = .refuse 504 ⟨5, 5, 4⟩ "RRVS is not implemented") := by
  refine ⟨?_, ?_, ?_⟩ <;> intro h <;> rw [rcptParams] <;> simp [h, String.b_inj]

/-- non-vacuity: a configuration with everything on, under TLS -/
def exCfg : Cfg :=
  { tlsAvail := true, insecureAuth := false, authSess := true, utf8 := true, reqtls := true, binmime := true,
    dsn := true, rrvs := true, maxMsg := 77, maxRcpt := 3, mechs := [[80, 76, 65, 73, 78]] }

example : Mon.capsTable exCfg true =
  ["PIPELINING".b, "8BITMIME".b, "ENHANCEDSTATUSCODES".b, "CHUNKING".b, "AUTH PLAIN".b, "SMTPUTF8".b, "REQUIRETLS".b,
   "BINARYMIME".b, "DSN".b, "SIZE 77".b, "LIMITS RCPTMAX=3".b, "RRVS".b] := by decide +kernel

end SmtpV.Props.C12
