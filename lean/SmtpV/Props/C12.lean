import SmtpV.Model.Server
import SmtpV.Spec.Monitors
/-!
# C12 — EHLO advertises exactly what the configuration enables, and honours it
-/
namespace SmtpV.Props.C12
open SmtpV SmtpV.Spec SmtpV.Server SmtpV.Reply

/-- **C12_caps_exact.**  For every configuration (all limits, all mechanism lists — not only the
    3072 enumerated points) and TLS state, the capability lines the server prints are exactly the
    specification table. -/
theorem C12_caps_exact (s : S) : caps s = Mon.capsTable s.cfg s.c.tls := by
  simp [caps, Mon.capsTable, authAllowed, Text.natToDec, Mon.natToDec, SP]

/-- the backend accepts the next session (scripted `ok`, or an exhausted script) -/
def NsAccepts (s : S) : Prop := s.be.ns = [] ∨ ∃ t, s.be.ns = BRes.ok :: t

/-- what an accepted EHLO/LHLO writes: `250-Hello <domain>` followed by exactly the table -/
theorem C12_ehlo_reply (s : S) (arg domain : Bytes)
    (hd : Parse.parseHelloArgument arg = some domain) (hs : s.c.session = none)
    (hns : NsAccepts s) (hcl : s.c.closed = false) :
    (handleGreet s true arg).1.evs.head? =
      some (.w (render 250 noEnh (("Hello ".b ++ Text.printable domain) :: Mon.capsTable s.cfg s.c.tls))) := by
  rw [← C12_caps_exact]
  unfold handleGreet
  rcases hns with h | ⟨t, h⟩ <;>
    simp [hd, hs, popNs, h, replyB, write, emit, hcl, caps, authAllowed, setHelo, newSession, greetReply]

/-- **C12_helo_none.**  HELO lists no extension: its reply is the single line `250 2.0.0 Hello <domain>`. -/
theorem C12_helo_none (s : S) (arg domain : Bytes)
    (hd : Parse.parseHelloArgument arg = some domain) (hs : s.c.session = none)
    (hns : NsAccepts s) (hcl : s.c.closed = false) :
    (handleGreet s false arg).1.evs.head? = some (.w (render 250 ⟨2, 0, 0⟩ ["Hello ".b ++ Text.printable domain])) := by
  unfold handleGreet
  rcases hns with h | ⟨t, h⟩ <;>
    simp [hd, hs, popNs, h, replyB, write, emit, hcl, setHelo, newSession, greetReply]

/-- **C12_disabled_504 (MAIL).**  A parameter of an extension the configuration disables, standing
    first in the parameter list, is refused with 504 — whatever follows it. -/
theorem C12_disabled_504_mail (cfg : Cfg) (v : Bytes) (rest : List (Bytes × Bytes)) (o : MailOpts) (bm : Bool) :
    (cfg.utf8 = false → mailParams cfg (("SMTPUTF8".b, v) :: rest) o bm = .refuse 504 ⟨5, 5, 4⟩ "SMTPUTF8 is not implemented") ∧
    (cfg.reqtls = false → mailParams cfg (("REQUIRETLS".b, v) :: rest) o bm = .refuse 504 ⟨5, 5, 4⟩ "REQUIRETLS is not implemented") ∧
    (cfg.binmime = false → mailParams cfg (("BODY".b, "BINARYMIME".b) :: rest) o bm = .refuse 504 ⟨5, 5, 4⟩ "BINARYMIME is not implemented") ∧
    (cfg.dsn = false → mailParams cfg (("RET".b, v) :: rest) o bm = .refuse 504 ⟨5, 5, 4⟩ "RET is not implemented") ∧
    (cfg.dsn = false → mailParams cfg (("ENVID".b, v) :: rest) o bm = .refuse 504 ⟨5, 5, 4⟩ "ENVID is not implemented") := by
  have hup : Text.toUpper "BINARYMIME".b = "BINARYMIME".b := by decide +kernel
  refine ⟨?_, ?_, ?_, ?_, ?_⟩ <;> intro h <;> rw [mailParams] <;> simp [h, String.b_inj, hup]

/-- **C12_disabled_504 (RCPT).** -/
theorem C12_disabled_504_rcpt (cfg : Cfg) (v : Bytes) (rest : List (Bytes × Bytes)) (o : RcptOpts) :
    (cfg.dsn = false → rcptParams cfg (("NOTIFY".b, v) :: rest) o = .refuse 504 ⟨5, 5, 4⟩ "NOTIFY is not implemented") ∧
    (cfg.dsn = false → rcptParams cfg (("ORCPT".b, v) :: rest) o = .refuse 504 ⟨5, 5, 4⟩ "ORCPT is not implemented") ∧
    (cfg.rrvs = false → rcptParams cfg (("RRVS".b, v) :: rest) o = .refuse 504 ⟨5, 5, 4⟩ "RRVS is not implemented") := by
  refine ⟨?_, ?_, ?_⟩ <;> intro h <;> rw [rcptParams] <;> simp [h, String.b_inj]

/-- non-vacuity: a configuration with everything on, under TLS -/
def exCfg : Cfg :=
  { tlsAvail := true, insecureAuth := false, authSess := true, utf8 := true, reqtls := true, binmime := true,
    dsn := true, rrvs := true, maxMsg := 77, maxRcpt := 3, mechs := [[80, 76, 65, 73, 78]] }

example : Mon.capsTable exCfg true =
  ["PIPELINING".b, "8BITMIME".b, "ENHANCEDSTATUSCODES".b, "CHUNKING".b, "AUTH PLAIN".b, "SMTPUTF8".b, "REQUIRETLS".b,
   "BINARYMIME".b, "DSN".b, "SIZE 77".b, "LIMITS RCPTMAX=3".b, "RRVS".b] := by decide +kernel

/-! ### advertised ⇔ honoured -/

/-- the keyword of a capability line: up to the first space -/
def keyword (l : Bytes) : Bytes := l.takeWhile (· != 32)

theorem keyword_lit (k rest : Bytes) (hk : k.all (· != 32) = true) : keyword (k ++ 32 :: rest) = k := by
  unfold keyword
  rw [List.takeWhile_append_of_pos (by simpa using hk)]
  simp

theorem keyword_plain (k : Bytes) (hk : k.all (· != 32) = true) : keyword k = k := by
  unfold keyword
  induction k with
  | nil => rfl
  | cons a t ih =>
    simp only [List.all_cons, Bool.and_eq_true] at hk
    simp only [List.takeWhile_cons, hk.1, if_true]
    rw [ih hk.2]

theorem ite_map {α β} (c : Bool) (x : α) (f : α → β) :
    (if c then [x] else []).map f = if c then [f x] else [] := by cases c <;> rfl

/-- **the keywords of the capability list**, in order -/
theorem caps_keywords (s : S) : (caps s).map keyword =
    ["PIPELINING".b, "8BITMIME".b, "ENHANCEDSTATUSCODES".b, "CHUNKING".b] ++
    (if s.cfg.tlsAvail && !s.c.tls then ["STARTTLS".b] else []) ++
    (if authAllowed s && s.cfg.authSess && !s.cfg.mechs.isEmpty then ["AUTH".b] else []) ++
    (if s.cfg.utf8 then ["SMTPUTF8".b] else []) ++
    (if s.c.tls && s.cfg.reqtls then ["REQUIRETLS".b] else []) ++
    (if s.cfg.binmime then ["BINARYMIME".b] else []) ++
    (if s.cfg.dsn then ["DSN".b] else []) ++
    ["SIZE".b] ++
    (if s.cfg.maxRcpt > 0 then ["LIMITS".b] else []) ++
    (if s.cfg.rrvs then ["RRVS".b] else []) := by
  have k1 : keyword "PIPELINING".b = "PIPELINING".b := keyword_plain _ (by decide +kernel)
  have k2 : keyword "8BITMIME".b = "8BITMIME".b := keyword_plain _ (by decide +kernel)
  have k3 : keyword "ENHANCEDSTATUSCODES".b = "ENHANCEDSTATUSCODES".b := keyword_plain _ (by decide +kernel)
  have k4 : keyword "CHUNKING".b = "CHUNKING".b := keyword_plain _ (by decide +kernel)
  have k5 : keyword "STARTTLS".b = "STARTTLS".b := keyword_plain _ (by decide +kernel)
  have k6 : keyword "SMTPUTF8".b = "SMTPUTF8".b := keyword_plain _ (by decide +kernel)
  have k7 : keyword "REQUIRETLS".b = "REQUIRETLS".b := keyword_plain _ (by decide +kernel)
  have k8 : keyword "BINARYMIME".b = "BINARYMIME".b := keyword_plain _ (by decide +kernel)
  have k9 : keyword "DSN".b = "DSN".b := keyword_plain _ (by decide +kernel)
  have k10 : keyword "RRVS".b = "RRVS".b := keyword_plain _ (by decide +kernel)
  have k11 : keyword "SIZE".b = "SIZE".b := keyword_plain _ (by decide +kernel)
  have kS : ∀ x : Bytes, keyword ("SIZE ".b ++ x) = "SIZE".b := by
    intro x
    have : "SIZE ".b ++ x = "SIZE".b ++ 32 :: x := by
      have : "SIZE ".b = "SIZE".b ++ [32] := by decide +kernel
      rw [this]; simp
    rw [this]; exact keyword_lit _ _ (by decide +kernel)
  have kL : ∀ x : Bytes, keyword ("LIMITS RCPTMAX=".b ++ x) = "LIMITS".b := by
    intro x
    have : "LIMITS RCPTMAX=".b ++ x = "LIMITS".b ++ 32 :: ("RCPTMAX=".b ++ x) := by
      have : "LIMITS RCPTMAX=".b = "LIMITS".b ++ 32 :: "RCPTMAX=".b := by decide +kernel
      rw [this]; simp
    rw [this]; exact keyword_lit _ _ (by decide +kernel)
  have kA : s.cfg.mechs.isEmpty = false → keyword ("AUTH".b ++ s.cfg.mechs.flatMap (fun m => SP :: m)) = "AUTH".b := by
    intro h
    cases hm : s.cfg.mechs with
    | nil => simp [hm] at h
    | cons m ms =>
      simp only [List.flatMap_cons, SP, List.cons_append]
      exact keyword_lit _ _ (by decide +kernel)
  unfold caps
  simp only [List.map_append, List.map_cons, List.map_nil, k1, k2, k3, k4]
  congr 1
  congr 1
  · congr 1
    · congr 1
      · congr 1
        · congr 1
          · congr 1
            · congr 1
              · split <;> simp [k5]
              · split
                · rename_i h
                  simp only [Bool.and_eq_true, Bool.not_eq_true'] at h
                  simp [kA h.2]
                · rfl
            · split <;> simp [k6]
          · split <;> simp [k7]
        · split <;> simp [k8]
      · split <;> simp [k9]
    · split <;> simp [kS, k11]
  · split <;> simp [kL]
  · split <;> simp [k10]

theorem mem_ite_single {α} (c : Bool) (x y : α) : y ∈ (if c then [x] else []) ↔ (c = true ∧ y = x) := by
  cases c <;> simp

/-- **C12_starttls_honoured.**  STARTTLS is in the capability list exactly when the command will be accepted: offered ⇒ answered
    220; not offered ⇒ refused with 502 and nothing else happens. -/
theorem C12_starttls_honoured (s : S) :
    ("STARTTLS".b ∈ (caps s).map keyword ↔ (s.cfg.tlsAvail && !s.c.tls) = true) ∧
    ((s.cfg.tlsAvail && !s.c.tls) = false →
      handleStartTLS s = reply s 502 ⟨5, 5, 1⟩ "Already running in TLS" ∨ handleStartTLS s = reply s 502 ⟨5, 5, 1⟩ "TLS not supported") := by
  constructor
  · rw [caps_keywords]
    simp only [List.mem_append, List.mem_cons, List.not_mem_nil, or_false, mem_ite_single, String.b_inj]
    simp
    intro _ h; exact absurd h (by decide +kernel)
  · intro h
    unfold handleStartTLS
    cases ht : s.c.tls with
    | true => left; simp
    | false =>
      right
      have : s.cfg.tlsAvail = false := by simpa [ht] using h
      simp [this]

/-- **C12_auth_honoured.**  AUTH is in the capability list exactly when authentication is possible (TLS or AllowInsecureAuth, a
    backend with authentication, a mechanism); on a connection where it is not allowed the command is refused with 523. -/
theorem C12_auth_honoured (s : S) :
    ("AUTH".b ∈ (caps s).map keyword ↔ (authAllowed s && s.cfg.authSess && !s.cfg.mechs.isEmpty) = true) ∧
    (authAllowed s = false → s.c.helo.isEmpty = false → s.c.didAuth = false → ∀ arg m0 more, Text.fields arg = m0 :: more →
      handleAuth s arg = (reply s 523 ⟨5, 7, 10⟩ "TLS is required", false)) := by
  constructor
  · rw [caps_keywords]
    simp only [List.mem_append, List.mem_cons, List.not_mem_nil, or_false, mem_ite_single, String.b_inj]
    simp
    intro _ h; exact absurd h (by decide +kernel)
  · intro ha hh hd arg m0 more hf
    unfold handleAuth
    simp [hh, hd, hf, ha]

/-- **C12_keyword_iff_enabled.**  Each optional extension is in the capability list exactly when the configuration (and, for
    REQUIRETLS, the TLS state) enables it — together with `C12_disabled_504_*`: not listed (disabled) ⇒ its parameters are refused. -/
theorem C12_keyword_iff_enabled (s : S) :
    ("SMTPUTF8".b ∈ (caps s).map keyword ↔ s.cfg.utf8 = true) ∧
    ("REQUIRETLS".b ∈ (caps s).map keyword ↔ (s.c.tls && s.cfg.reqtls) = true) ∧
    ("BINARYMIME".b ∈ (caps s).map keyword ↔ s.cfg.binmime = true) ∧
    ("DSN".b ∈ (caps s).map keyword ↔ s.cfg.dsn = true) ∧
    ("RRVS".b ∈ (caps s).map keyword ↔ s.cfg.rrvs = true) ∧
    ("LIMITS".b ∈ (caps s).map keyword ↔ s.cfg.maxRcpt > 0) := by
  rw [caps_keywords]
  simp only [List.mem_append, List.mem_cons, List.not_mem_nil, or_false, mem_ite_single, String.b_inj]
  refine ⟨?_, ?_, ?_, ?_, ?_, ?_⟩
  · simp; intro _ h; exact absurd h (by decide +kernel)
  · simp; intro _ h; exact absurd h (by decide +kernel)
  · simp; intro _ h; exact absurd h (by decide +kernel)
  · simp; intro _ h; exact absurd h (by decide +kernel)
  · simp; intro _ h; exact absurd h (by decide +kernel)
  · simp

/-- **C12_requiretls_honoured_iff_advertised.**  The MAIL parameter REQUIRETLS is accepted by the parameter switch — as the MAIL
    handler calls it, with `effCfg` — exactly when the capability list of that connection state contains REQUIRETLS; otherwise it
    is refused with 504, whatever follows it.  (Before the repair a server with the extension enabled accepted the parameter on a
    plaintext connection, where it does not advertise it.) -/
theorem C12_requiretls_honoured_iff_advertised (s : S) (rest : List (Bytes × Bytes)) (o : MailOpts) (bm : Bool) :
    ("REQUIRETLS".b ∈ (caps s).map keyword →
      mailParams (effCfg s) (("REQUIRETLS".b, []) :: rest) o bm = mailParams (effCfg s) rest { o with requireTLS := true } bm) ∧
    ("REQUIRETLS".b ∉ (caps s).map keyword →
      mailParams (effCfg s) (("REQUIRETLS".b, []) :: rest) o bm = .refuse 504 ⟨5, 5, 4⟩ "REQUIRETLS is not implemented") := by
  have hk := (C12_keyword_iff_enabled s).2.1
  have k1 : ("REQUIRETLS".b == "SIZE".b) = false := by decide +kernel
  have k2 : ("REQUIRETLS".b == "SMTPUTF8".b) = false := by decide +kernel
  have k3 : ("REQUIRETLS".b == "REQUIRETLS".b) = true := by decide +kernel
  constructor
  · intro h
    have he : (effCfg s).reqtls = true := by
      have := hk.mp h
      simp only [effCfg, Bool.and_eq_true] at this ⊢
      exact ⟨this.2, this.1⟩
    rw [mailParams]
    simp only [k1, k2, k3, Bool.false_eq_true, if_false, if_true, he, Bool.not_true, List.isEmpty_nil]
  · intro h
    have he : (effCfg s).reqtls = false := by
      cases hv : (effCfg s).reqtls with
      | false => rfl
      | true =>
        exfalso; apply h; apply hk.mpr
        simp only [effCfg, Bool.and_eq_true] at hv ⊢
        exact ⟨hv.2, hv.1⟩
    rw [mailParams]
    simp only [k1, k2, k3, Bool.false_eq_true, if_false, if_true, he, Bool.not_false]

/-- **C12_caps_depend_on_config_and_tls_only.**  What a connection advertises is a function of the server's configuration and of
    whether TLS is active — of nothing else the connection has been through (greeting name, authentication, envelope, error count,
    open transfer, backend script, octets pending): every capability list of a connection in the same TLS state is the same list.
    (A client that reads the list again, as the go-smtp client does after `Reset`, finds the same extensions.) -/
theorem C12_caps_depend_on_config_and_tls_only (s s' : S) (hc : s.cfg = s'.cfg) (ht : s.c.tls = s'.c.tls) : caps s = caps s' := by
  rw [C12_caps_exact, C12_caps_exact, hc, ht]

end SmtpV.Props.C12
