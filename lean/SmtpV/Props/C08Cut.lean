import SmtpV.Proofs.CutLine
/-!
# C08 / C07 — a command cut short by the end of the connection is not executed

"A disconnect at every byte position of every conversation": when the peer goes away (or the idle timeout fires) in the middle
of a command line, what had arrived of that line is not a command.  bufio hands such a rest out as a line with a nil error;
`Conn.readLine` (conn.go) turns it back into the connection's error — repaired in the commit recorded in known_findings.json;
before, `MAIL FROM:<a@b> SIZE=1` cut out of `SIZE=1000`, or a final `BDAT 0 LAST` without its CRLF, was executed after the
disconnect (and completed the message).
-/
namespace SmtpV.Props.C08
open SmtpV SmtpV.Wire SmtpV.Server

/-- **C08_cut_line_not_executed.**  For every state of the wire — any buffer content, any segments still to come, any limiter
    state, whatever the source ends with (EOF, timeout, closed) — if no line feed is pending, `Conn.readLine` returns an error:
    the command loop ends without having been given a line. -/
theorem C08_cut_line_not_executed (w : W) (h : NoLF (pending w)) : ∃ e, (readLine w).2 = .error e :=
  readLine_cut w h

/-- the same for the SASL exchange and every other caller: they read through `connReadLine` -/
theorem C08_cut_line_not_read (s : S) (h : NoLF (pending s.w)) : ∃ e, (connReadLine s).2 = .error e := by
  obtain ⟨e, he⟩ := readLine_cut s.w h
  unfold connReadLine
  rcases hr : readLine s.w with ⟨w1, r⟩
  rw [hr] at he
  simp only [] at he ⊢
  exact ⟨e, he⟩

-- a rest without line feed is an error …
example : (match (readLine { buf := "BDAT 0 LAST".b, tail := .eof }).2 with | .error .eof => true | _ => false) = true := by decide +kernel
example : (match (readLine { segs := ["MAIL FROM:<a@b> SI".b, "ZE=1".b], tail := .timeout }).2 with | .error .timeout => true | _ => false) = true := by decide +kernel
-- … a terminated line is a line, also when the source fails right behind it
example : (match (readLine { buf := "QUIT\r\n".b, tail := .eof }).2 with | .ok l => l == "QUIT".b | _ => false) = true := by decide +kernel

end SmtpV.Props.C08
