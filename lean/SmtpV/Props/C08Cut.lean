import SmtpV.Proofs.CutLine
/-!
# C08 / C07 — a command cut short by the end of the connection is not executed

"A disconnect at every byte position of every conversation": when the peer goes away (or the idle timeout fires) in the middle
of a command line, what had arrived of that line is not a command.  bufio hands such a rest out as a line with a nil error;
`Conn.readLine` (conn.go) turns it back into the connection's error — repaired in the commit recorded in known_findings.json;
before, `MAIL FROM:<a@b> SIZE=1` cut out of `SIZE=1000`, or a final `BDAT 0 LAST` without its CRLF, was executed after the
disconnect (and completed the message).
-/
namespace SmtpV.Props.C08
open SmtpV SmtpV.Wire SmtpV.Server

/-- **C08_cut_line_not_executed.**  For every state of the wire — any buffer content, any segments still to come, any limiter
    state, whatever the source ends with (EOF, timeout, closed) — if no line feed is pending, `Conn.readLine` returns an error:
    the command loop ends without having been given a line. -/
theorem C08_cut_line_not_executed (w : W) (h : NoLF (pending w)) : ∃ e, (readLine w).2 = .error e :=
  readLine_cut w h

/-- the same for the SASL exchange and every other caller: they read through `connReadLine` -/
theorem C08_cut_line_not_read (s : S) (h : NoLF (pending s.w)) : ∃ e, (connReadLine s).2 = .error e := by
  obtain ⟨e, he⟩ := readLine_cut s.w h
  unfold connReadLine
  rcases hr : readLine s.w with ⟨w1, r⟩
  rw [hr] at he
  simp only [] at he ⊢
  exact ⟨e, he⟩

/-- **C08_cut_ends_loop.**  The command loop on a connection whose remaining input contains no line feed — the peer went away, or
    stopped, in the middle of a command line: no line is read (no `cmd` event), no callback is made, nothing is executed; at most
    one closing notice (500 for an over-long line, 421 for the idle timeout) is written, and the loop is over. -/
theorem C08_cut_ends_loop (fuel : Nat) (s : S) (h : NoLF (pending s.w)) :
    ∃ tl, (loop fuel s).evs = tl ++ s.evs ∧ ∀ e ∈ tl, ∃ bs, e = Spec.Ev.w bs := by
  cases fuel with
  | zero => exact ⟨[], rfl, by simp⟩
  | succ fuel =>
    unfold loop
    split
    · exact ⟨[], rfl, by simp⟩
    · obtain ⟨e, he⟩ := C08_cut_line_not_read s h
      have hevs : (connReadLine s).1.evs = s.evs := by
        unfold connReadLine; rcases readLine s.w with ⟨w1, r⟩; rfl
      have hcl : (connReadLine s).1.c = s.c := by
        unfold connReadLine; rcases readLine s.w with ⟨w1, r⟩; rfl
      rcases hr : connReadLine s with ⟨s1, r⟩
      rw [hr] at he hevs hcl
      simp only [] at he hevs hcl ⊢
      subst he
      have hw : ∀ (code : Nat) (enh : Spec.Enh) (text : String),
          ∃ tl, (reply s1 code enh text).evs = tl ++ s.evs ∧ ∀ e ∈ tl, ∃ bs, e = Spec.Ev.w bs := by
        intro code enh text
        unfold reply write
        split
        · exact ⟨[], by simpa using hevs, by simp⟩
        · exact ⟨[Spec.Ev.w (Reply.render code enh [text.b])], by simp [emit, hevs], by simp⟩
      cases e with
      | eof => exact ⟨[], hevs, by simp⟩
      | closed => exact ⟨[], hevs, by simp⟩
      | tooLong => exact hw _ _ _
      | timeout => exact hw _ _ _

-- a rest without line feed is an error …
example : (match (readLine { buf := "BDAT 0 LAST".b, tail := .eof }).2 with | .error .eof => true | _ => false) = true := by decide +kernel
example : (match (readLine { segs := ["MAIL FROM:<a@b> SI".b, "ZE=1".b], tail := .timeout }).2 with | .error .timeout => true | _ => false) = true := by decide +kernel
-- … a terminated line is a line, also when the source fails right behind it
example : (match (readLine { buf := "QUIT\r\n".b, tail := .eof }).2 with | .ok l => l == "QUIT".b | _ => false) = true := by decide +kernel

end SmtpV.Props.C08
