import SmtpV.Model.Client
import SmtpV.Proofs.ClientFrame
/-!
# C17, client side of the greeting: the answer to LHLO is the result

The LMTP client does not fall back to HELO when LHLO is refused with 500 or 502 (client.go, repaired in a135dac): a backend that
refuses the session with such a code has its error reported, not the reply to a HELO that no LMTP server understands.
-/
namespace SmtpV.Props.C17
open SmtpV SmtpV.Text SmtpV.Client

theorem closeDot_lmtp (c : C) : c.closeDot.1.lmtp = c.lmtp := by unfold C.closeDot; split <;> rfl

theorem cmd_lmtp (c : C) (e : Nat) (l : Bytes) : (c.cmd e l).1.lmtp = c.lmtp := by
  unfold C.cmd
  simp only []
  have hs := send_lmtp c.closeDot.1 (c.closeDot.2 ++ l ++ crlf)
  split
  · rename_i c' h; rw [h] at hs; simpa [closeDot_lmtp] using hs
  · rename_i c' h; rw [h] at hs; simp only [read_lmtp]; simpa [closeDot_lmtp] using hs

/-- **C17_lmtp_hello_reports_refusal.**  An LMTP client whose greeting exchange has not happened yet: when the server's reply to
    `LHLO` is an error reply `e` — whatever its code, 500 and 502 included — the hello exchange ends there and its result is `e`;
    no other command is sent. -/
theorem C17_lmtp_hello_reports_refusal (c c1 c2 : C) (e : SErr) (hd : c.didHello = false) (hg : c.greet = (c1, none))
    (hl : c1.lmtp = true)
    (hc : ({ c1 with didHello := true } : C).cmd 250 ("LHLO ".b ++ c1.localName) = (c2, .smtpErr e)) :
    c.hello = ({ c2 with helloErr := some (.smtp e) }, some (.smtp e)) := by
  have hl2 : c2.lmtp = true := by
    have := cmd_lmtp ({ c1 with didHello := true } : C) 250 ("LHLO ".b ++ c1.localName)
    rw [hc] at this
    simpa [hl] using this
  have hc' := hc
  simp only [hl] at hc'
  unfold C.hello
  simp only [hd, Bool.false_eq_true, if_false, hg, hl, if_true, hc', hl2, Bool.not_true, Bool.and_false]

end SmtpV.Props.C17
