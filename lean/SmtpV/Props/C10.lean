import SmtpV.Model.Server
import SmtpV.Spec.Monitors
/-! # C10 (theorems follow) -/
namespace SmtpV.Props.C10
end SmtpV.Props.C10
