import SmtpV.Proofs.ServerInv
import SmtpV.Spec.Monitors
import SmtpV.Props.C03
import SmtpV.Proofs.OrderFacts
import SmtpV.Proofs.ClientTLSr
/-!
# C10 — STARTTLS discards all plaintext state and input (server side)

Client side: `C10_client_*` below, on the client model (`Model/Client.lean`, tied to client.go by the cstls probes).
-/
namespace SmtpV.Props.C10
open SmtpV SmtpV.Spec SmtpV.Server SmtpV.Reply

/-- the handshake the scripted TLS layer will report succeeds -/
def HsSucceeds (s : S) : Prop := s.be.hs = [] ∨ ∃ t, s.be.hs = true :: t

/-- **C10_offer_iff.**  STARTTLS is accepted (220) only when TLS is configured and not already active:
    otherwise the command changes nothing but the reply stream. -/
theorem C10_refused_unless_available (s : S) (h : s.c.tls = true ∨ s.cfg.tlsAvail = false) :
    (handleStartTLS s).c = s.c ∧ (handleStartTLS s).w = s.w := by
  unfold handleStartTLS
  by_cases ht : s.c.tls = true
  · simp only [ht, if_true]; exact ⟨reply_c _ _ _ _, reply_w _ _ _ _⟩
  · have ha : s.cfg.tlsAvail = false := by rcases h with h | h; exact absurd h ht; exact h
    simp only [ht, ha, Bool.false_eq_true, if_false, Bool.not_false, if_true]
    exact ⟨reply_c _ _ _ _, reply_w _ _ _ _⟩

theorem tlsUpgrade_spec (s : S) :
    (tlsUpgrade s).c = { s.c with tls := true, session := none, helo := [], didAuth := false, bdat := none,
                                  bdatStatus := none, bytesReceived := 0, fromReceived := false, recipients := [] } ∧
    (tlsUpgrade s).w = { (s.tlsW.getD {}) with limit := s.cfg.maxLine, cur := 0, tripped := false, buf := [], err := none } ∧
    (tlsUpgrade s).tlsW = none := by
  unfold tlsUpgrade
  obtain ⟨rc, rw_, rt, _, _⟩ := resetConn_c (forgetGreeting (logoutSess (switchWire s)))
  obtain ⟨lc, lw, lt, _, _⟩ := logoutSess_c (switchWire s)
  have fc : (forgetGreeting (logoutSess (switchWire s))).c = { (logoutSess (switchWire s)).c with helo := [], didAuth := false } := rfl
  have fw : (forgetGreeting (logoutSess (switchWire s))).w = (logoutSess (switchWire s)).w := rfl
  have ft : (forgetGreeting (logoutSess (switchWire s))).tlsW = (logoutSess (switchWire s)).tlsW := rfl
  have sc : (switchWire s).c = { s.c with tls := true } := rfl
  refine ⟨?_, ?_, ?_⟩
  · rw [rc, fc, lc, sc]
  · rw [rw_, fw, lw]; rfl
  · rw [rt, ft, lt]; rfl

/-- the state `handleStartTLS` reaches when the handshake succeeds, spelled out -/
theorem startTLS_success (s : S) (hav : s.cfg.tlsAvail = true) (hno : s.c.tls = false) (hs : HsSucceeds s) :
    (handleStartTLS s).c = { s.c with tls := true, session := none, helo := [], didAuth := false, bdat := none,
                                      bdatStatus := none, bytesReceived := 0, fromReceived := false, recipients := [] } ∧
    (handleStartTLS s).w = { (s.tlsW.getD {}) with limit := s.cfg.maxLine, cur := 0, tripped := false, buf := [], err := none } ∧
    (handleStartTLS s).tlsW = none := by
  unfold handleStartTLS
  have hbe : (reply s 220 ⟨2, 0, 0⟩ "Ready to start TLS").be = s.be := by unfold reply write; split <;> rfl
  have htw : (reply s 220 ⟨2, 0, 0⟩ "Ready to start TLS").tlsW = s.tlsW := by unfold reply write; split <;> rfl
  have hp : (popHs (reply s 220 ⟨2, 0, 0⟩ "Ready to start TLS")).1 = true ∧
      (popHs (reply s 220 ⟨2, 0, 0⟩ "Ready to start TLS")).2.c = s.c ∧
      (popHs (reply s 220 ⟨2, 0, 0⟩ "Ready to start TLS")).2.cfg = s.cfg ∧
      (popHs (reply s 220 ⟨2, 0, 0⟩ "Ready to start TLS")).2.tlsW = s.tlsW := by
    unfold popHs
    rcases hs with h | ⟨t, h⟩ <;> simp [hbe, h, htw]
  simp only [hno, hav, Bool.false_eq_true, if_false, Bool.not_true]
  generalize popHs (reply s 220 ⟨2, 0, 0⟩ "Ready to start TLS") = p at hp
  obtain ⟨ok, s1⟩ := p
  obtain ⟨h1, h2, h3, h4⟩ := hp
  simp only at h1 h2 h3 h4
  subst h1
  simp only [Bool.not_true, Bool.false_eq_true, if_false]
  obtain ⟨uc, uw, ut⟩ := tlsUpgrade_spec (emit s1 (.tlsStart true))
  refine ⟨?_, ?_, ?_⟩
  · rw [uc]; simp only [emit_c, h2]
  · rw [uw]
    have e1 : (emit s1 (Ev.tlsStart true)).tlsW = s.tlsW := h4
    have e2 : (emit s1 (Ev.tlsStart true)).cfg = s.cfg := h3
    rw [e1, e2]
  · rw [ut]

/-- **C10_server_fresh.**  After a successful STARTTLS the connection state is the initial state with
    `tls = true` — greeting name, authentication, envelope, open transfer and session are gone; only the
    error count and the session-id counter survive — and the input read from then on is the TLS stream
    alone: whatever plaintext was buffered or pipelined behind the command is dropped. -/
theorem C10_server_fresh (s : S) (hav : s.cfg.tlsAvail = true) (hno : s.c.tls = false) (hs : HsSucceeds s) :
    let s' := handleStartTLS s
    s'.c.tls = true ∧ s'.c.helo = [] ∧ s'.c.didAuth = false ∧ s'.c.session = none ∧ s'.c.fromReceived = false ∧
    s'.c.recipients = [] ∧ s'.c.bdat = none ∧ s'.c.bytesReceived = 0 ∧
    s'.c.errCount = s.c.errCount ∧ s'.c.nextSess = s.c.nextSess ∧
    s'.w.buf = [] ∧ s'.w.segs = (s.tlsW.getD {}).segs ∧ s'.w.cur = 0 ∧ s'.w.tripped = false ∧ s'.tlsW = none := by
  obtain ⟨hc, hw, ht⟩ := startTLS_success s hav hno hs
  simp only [hc, hw, ht]
  simp

/-- **C10_no_plaintext_in_tls.**  Non-interference: two states that differ only in the plaintext still
    buffered or still to come behind the STARTTLS command are in the same state after the upgrade, and
    read the same (TLS) input from then on. -/
theorem C10_no_plaintext_in_tls (s : S) (buf : Bytes) (segs : List Bytes)
    (hav : s.cfg.tlsAvail = true) (hno : s.c.tls = false) (hs : HsSucceeds s) :
    (handleStartTLS { s with w := { s.w with buf := buf, segs := segs } }).w = (handleStartTLS s).w ∧
    (handleStartTLS { s with w := { s.w with buf := buf, segs := segs } }).c = (handleStartTLS s).c := by
  obtain ⟨hc, hw, _⟩ := startTLS_success s hav hno hs
  obtain ⟨hc', hw', _⟩ := startTLS_success { s with w := { s.w with buf := buf, segs := segs } } hav hno hs
  rw [hc, hw, hc', hw']
  simp

/-- **C10_failed_handshake_changes_nothing.**  STARTTLS accepted (220) and then a handshake that fails: the connection state
    is exactly what it was — same session (not logged out), same greeting name and authentication state, same envelope and
    open transfer, TLS still off — and the command reader goes on with the stream it had; only the two replies were written. -/
theorem C10_failed_handshake_changes_nothing (s : S) (hav : s.cfg.tlsAvail = true) (hno : s.c.tls = false)
    (t : List Bool) (hs : s.be.hs = false :: t) :
    (handleStartTLS s).c = s.c ∧ (handleStartTLS s).w = s.w ∧ (handleStartTLS s).tlsW = s.tlsW := by
  unfold handleStartTLS
  have hbe : (reply s 220 ⟨2, 0, 0⟩ "Ready to start TLS").be = s.be := by unfold reply write; split <;> rfl
  have hp : (popHs (reply s 220 ⟨2, 0, 0⟩ "Ready to start TLS")).1 = false ∧
      (popHs (reply s 220 ⟨2, 0, 0⟩ "Ready to start TLS")).2.c = s.c ∧
      (popHs (reply s 220 ⟨2, 0, 0⟩ "Ready to start TLS")).2.w = s.w ∧
      (popHs (reply s 220 ⟨2, 0, 0⟩ "Ready to start TLS")).2.tlsW = s.tlsW := by
    unfold popHs
    simp [hbe, hs]
    unfold reply write; split <;> simp [emit]
  simp only [hno, hav, Bool.false_eq_true, if_false, Bool.not_true]
  generalize popHs (reply s 220 ⟨2, 0, 0⟩ "Ready to start TLS") = p at hp
  obtain ⟨ok, s1⟩ := p
  obtain ⟨h1, h2, h3, h4⟩ := hp
  simp only at h1 h2 h3 h4
  subst h1
  simp only [Bool.not_false, if_true]
  refine ⟨?_, ?_, ?_⟩
  · rw [reply_c]; simp only [emit_c, h2]
  · rw [reply_w]; simp only [emit_w, h3]
  · unfold reply write; split <;> simp [emit, h4]

/-! ### whole connections: consequences of the ordering theorem, stated on the trace -/
open SmtpV.Spec.Order in
/-- **C10_upgrade_discards_session.**  On every connection, after a successful STARTTLS handshake the backend sees
    no Mail, Rcpt, Data, Reset, Auth or SASL step until a new session has been created: nothing learned in plaintext
    (the session, its authentication, its envelope) is used inside TLS, whatever was pipelined behind the command. -/
theorem C10_upgrade_discards_session (s : S) (h : Props.C03.Fresh s) (pre mid post : List Ev) (e : Ev)
    (htr : (serve s).evs.reverse = pre ++ .tlsStart true :: (mid ++ e :: post)) (hu : usesSession e = true) :
    ∃ x ∈ mid, isNs x = true := by
  obtain ⟨m, hm⟩ := run_ok_of_check (Props.C03.order_accepts_every_connection s h)
  rw [htr] at hm
  exact accepted_upgrade_discards hm hu

open SmtpV.Spec.Order in
/-- **C10_new_session_sees_tls.**  Every session created after a successful handshake is told that TLS is active. -/
theorem C10_new_session_sees_tls (s : S) (h : Props.C03.Fresh s) (pre mid post : List Ev) (id : Nat) (helo : Bytes)
    (tls : Bool) (r : BRes) (htr : (serve s).evs.reverse = pre ++ .tlsStart true :: (mid ++ .ns id helo tls r :: post)) :
    tls = true := by
  obtain ⟨m, hm⟩ := run_ok_of_check (Props.C03.order_accepts_every_connection s h)
  rw [htr] at hm
  exact accepted_ns_sees_tls hm

/-! ### the client half (NewClientStartTLS / DialStartTLS / SendMail), on the client model -/
open SmtpV.Client in
/-- **C10_client_plain_frozen.**  Once STARTTLS has been answered 220 (`initStartTLS` succeeded), whatever the
    application then calls — any sequence of `Hello`, `Mail`, `Rcpt`, `Data`, writes, `Close`, `Auth`, `Reset`, `Quit`, … — and
    whatever the peer answers or fails to answer, not one more octet is written on the raw socket: either the handshake
    succeeded and everything goes inside TLS, or it failed and the connection is closed. -/
theorem C10_client_plain_frozen (c : C) (h : (c.initStartTLS).2 = none) (calls : List Call) :
    (calls.foldl (fun c k => (c.call k).1) (c.initStartTLS).1).plainLog = (c.initStartTLS).1.plainLog :=
  (calls_keeps calls _ (initStartTLS_ok c h)).1

open SmtpV.Client in
/-- **C10_client_plaintext_only_upgrade.**  Package-level `SendMail`: everything it ever writes on the raw socket is a
    sequence of whole lines out of {EHLO/LHLO name, HELO name, STARTTLS} — no AUTH, MAIL, RCPT, DATA or message octet
    leaves in plaintext, for every peer behaviour (STARTTLS not offered, refused, 220 and no TLS, injected replies). -/
theorem C10_client_plaintext_only_upgrade (c : C) (hi : Idle c) (hp : c.tlsPending = false) (auth : Bool) (frm : Bytes)
    (to : List Bytes) (body : Bytes) :
    ∃ ls : List Bytes, (sendMail c auth frm to body).1.plainLog = c.plainLog ++ ls.flatten ∧ ∀ l ∈ ls, l ∈ upgradeLines c := by
  rcases sendMail_plain c auth frm to body with h | h
  · exact ⟨[], by simp [h], by simp⟩
  · rw [h]; exact initStartTLS_lines c hi hp

open SmtpV.Client in
/-- **C10_client_stops_when_upgrade_fails.**  When the upgrade does not happen, `SendMail` returns that error and the
    state `initStartTLS` left: nothing is sent after the refusal. -/
theorem C10_client_stops_when_upgrade_fails (c : C) (auth : Bool) (frm : Bytes) (to : List Bytes) (body : Bytes) (e : CErr)
    (h : (c.initStartTLS).2 = some e) :
    sendMail c auth frm to body = (c, "err") ∨ sendMail c auth frm to body = ((c.initStartTLS).1, showErr (some e)) :=
  sendMail_stops c auth frm to body e h

open SmtpV.Client in
/-- the hypotheses are those of a new client -/
example : Idle ({} : C) ∧ ({} : C).tlsPending = false := ⟨⟨rfl, rfl⟩, rfl⟩

end SmtpV.Props.C10
