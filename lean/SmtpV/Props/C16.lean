import SmtpV.Model.Client
import SmtpV.Spec.ClientMon
/-! # C16 (theorems follow) -/
namespace SmtpV.Props.C16
end SmtpV.Props.C16
