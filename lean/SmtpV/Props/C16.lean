import SmtpV.Model.Client
import SmtpV.Spec.ClientMon
import SmtpV.Proofs.DotWriterRT
import SmtpV.Props.C01
/-!
# C16 — a message written through the client arrives intact at a go-smtp backend

Model level: the client's dot-writer (`net/textproto.dotWriter` as used by `Client.Data`) composed
with the server's DATA reader.  The tie of both models to the code is the `cconv`, `dr` and `conv`
correspondence probes; the `e2e` probe checks the composition on the implementation itself.
-/
namespace SmtpV.Props.C16
open SmtpV SmtpV.Spec SmtpV.DotWriter SmtpV.DataReader SmtpV.Client

/-- **C16_partition_independent.**  The octets put on the wire depend only on the concatenation of the
    `Write` calls, not on how the body was partitioned. -/
theorem C16_partition_independent (parts : List Bytes) : writeAll parts = writeAll [parts.flatten] := by
  rw [writeAll_flatten, writeAll_flatten]; simp

/-- **C16_wire_terminated.**  For every body in which CR occurs only as part of CRLF, in any partition,
    what the client writes is a terminated DATA stream whose content is the body with bare LF
    normalised to CRLF and a final CRLF ensured; whatever follows (`rest`) stays behind the marker. -/
theorem C16_wire_terminated (parts : List Bytes) (rest : Bytes) (h : ClientMon.crOk parts.flatten = true) :
    Terminated (writeAll parts ++ rest) (ClientMon.normBody parts.flatten) rest :=
  writeAll_terminated parts rest h

/-- **C16_roundtrip.**  Writer and reader composed: whatever read sizes the backend uses, once its reader
    reports EOF it has received exactly the normalised body — dot lines intact, nothing cut at look-alikes —
    and the command stream resumes at `rest`. -/
theorem C16_roundtrip (parts : List Bytes) (rest : Bytes) (h : ClientMon.crOk parts.flatten = true)
    (sizes : List Nat) (x : Bytes × Res)
    (hl : (readSched {} (writeAll parts ++ rest) sizes).1.getLast? = some x) (he : x.2 = .eof) :
    outs (readSched {} (writeAll parts ++ rest) sizes).1 = ClientMon.normBody parts.flatten ∧
    (readSched {} (writeAll parts ++ rest) sizes).2.2 = rest :=
  (SmtpV.Props.C01.C01_exact _ _ _ (C16_wire_terminated parts rest h) sizes).2.2.1 x hl he

/-- the backend does get there: with positive read sizes and enough reads the reader reaches EOF -/
theorem C16_roundtrip_progress (parts : List Bytes) (rest : Bytes) (h : ClientMon.crOk parts.flatten = true)
    (sizes : List Nat) (hpos : ∀ k ∈ sizes, 0 < k) (hlen : (ClientMon.normBody parts.flatten).length < sizes.length) :
    ∃ x, (readSched {} (writeAll parts ++ rest) sizes).1.getLast? = some x ∧ x.2 = .eof :=
  (SmtpV.Props.C01.C01_exact _ _ _ (C16_wire_terminated parts rest h) sizes).2.2.2 hpos hlen

/-- **C16_second_close.**  `Close` on a writer whose `Close` has been called is a local error: nothing is
    written and no reply is consumed (the connection state is what it was). -/
theorem C16_second_close (c : C) (k : Nat) (d : DW) (hk : c.dws[k]? = some d) (hc : d.closed = true) :
    (c.call (.close (some k))).2.res = "err" ∧ (c.call (.close (some k))).2.written = c.carry ∧
    (c.call (.close (some k))).1.peer = c.peer := by
  have h : c.call (.close (some k)) =
      ({ c with out := c.carry, carry := [] }, { written := c.carry, res := "err", extra := [] }) := by
    unfold C.call
    simp only [Option.getD_some, hk, hc, if_true, showErr]
  rw [h]; exact ⟨rfl, rfl, rfl⟩

/-! ### non-vacuity -/

example : ClientMon.crOk ".a\n.\r\nMAIL FROM:<bait@x>\r\n.".b = true := by decide +kernel

example : writeAll [".a\n.".b, "\r\nx".b] = "..a\r\n..\r\nx\r\n.\r\n".b := by decide +kernel

example : ClientMon.normBody ".a\n.\r\nx".b = ".a\r\n.\r\nx\r\n".b := by decide +kernel

/-- outside the domain the law really fails (a lone CR): the hypothesis is not decoration -/
example : (terminated? (writeAll ["a\r\r\nb".b])).map (·.1) = some "a\r\r\r\nb\r\n".b ∧
    ClientMon.normBody "a\r\r\nb".b = "a\r\r\nb\r\n".b ∧ ClientMon.crOk "a\r\r\nb".b = false := by decide +kernel

end SmtpV.Props.C16
