import SmtpV.Props.DataMonitor
/-!
# C01 — DATA body reaches the backend byte-exact after RFC 5321 dot-unstuffing

Model: `DataReader.read`/`readSched` (data.go `dataReader.Read`, all `Read` calls a backend makes
with buffer sizes `sizes`).  Spec: `Spec.Terminated` (Spec/Data.lean).
-/
namespace SmtpV.Props.C01
open SmtpV SmtpV.Spec SmtpV.DataReader

/-- **C01_exact.**  For every terminated stream and every sequence of read-buffer sizes, on a reader
    without size limit:
    (1) the octets returned so far are a prefix of the body;
    (2) no read fails;
    (3) if the last read reports EOF, the octets returned are exactly the body and the input left
        unread is exactly what follows the end marker;
    (4) non-empty reads, more of them than the body has octets, do reach EOF. -/
theorem C01_exact (s body rest : Bytes) (h : Terminated s body rest) (sizes : List Nat) :
    outs (readSched {} s sizes).1 <+: body ∧
    (∀ x ∈ (readSched {} s sizes).1, x.2 = .more ∨ x.2 = .eof) ∧
    (∀ x, (readSched {} s sizes).1.getLast? = some x → x.2 = .eof →
        outs (readSched {} s sizes).1 = body ∧ (readSched {} s sizes).2.2 = rest) ∧
    ((∀ k ∈ sizes, 0 < k) → body.length < sizes.length →
        ∃ x, (readSched {} s sizes).1.getLast? = some x ∧ x.2 = .eof) := by
  have hE : run ({} : DR).state s = (.eof, body, rest) := run_terminated s body rest h
  obtain ⟨o', ho, hall, hlast, hprog⟩ :=
    sched_ok sizes {} s body rest hE (Or.inl rfl) (fun h => by cases h)
  refine ⟨⟨o', ho.symm⟩, hall, ?_, hprog⟩
  intro x hx hxe
  obtain ⟨ho', hr⟩ := hlast x hx hxe
  subst ho'
  exact ⟨by simpa using ho.symm, hr⟩

/-- **C01_sched_indep.**  Two read schedules that both run to EOF deliver the same octets and leave the
    same input — the result does not depend on the backend's buffer sizes. -/
theorem C01_sched_indep (s body rest : Bytes) (h : Terminated s body rest) (sz1 sz2 : List Nat)
    (x1 x2 : Bytes × Res)
    (h1 : (readSched {} s sz1).1.getLast? = some x1) (e1 : x1.2 = .eof)
    (h2 : (readSched {} s sz2).1.getLast? = some x2) (e2 : x2.2 = .eof) :
    outs (readSched {} s sz1).1 = outs (readSched {} s sz2).1 ∧
    (readSched {} s sz1).2.2 = (readSched {} s sz2).2.2 := by
  obtain ⟨a1, b1⟩ := (C01_exact s body rest h sz1).2.2.1 x1 h1 e1
  obtain ⟨a2, b2⟩ := (C01_exact s body rest h sz2).2.2.1 x2 h2 e2
  exact ⟨a1.trans a2.symm, b1.trans b2.symm⟩

/-- **C01_transparent.**  Unstuffing touches nothing but one leading dot: every line is delivered
    unchanged or with exactly its first octet `.` removed. -/
theorem C01_transparent (l : Bytes) : unstuff l = l ∨ l = DOT :: unstuff l := by
  cases l with
  | nil => left; rfl
  | cons c t =>
    by_cases hc : c = DOT
    · right; simp [unstuff, hc]
    · left; simp [unstuff, hc]

/-- The specification's decomposition is unique, so "the first end marker" is well defined. -/
theorem C01_spec_unique {s b1 r1 b2 r2 : Bytes} (h1 : Terminated s b1 r1) (h2 : Terminated s b2 r2) :
    b1 = b2 ∧ r1 = r2 := Terminated_unique h1 h2

/-- **C01_monitor.**  The executable judge used on implementation output accepts the model on every
    stream and schedule. -/
theorem C01_monitor (s : Bytes) (sizes : List Nat) :
    DataMon.check none s sizes (readSched {} s sizes).1 (readSched {} s sizes).2.2 = [] :=
  data_monitor_accepts_model none s sizes

/-! ### non-vacuity: a concrete stream with stuffed dot, lone CR after a dot, CR CR LF, bare LF, bait -/

def exStream : Bytes :=
  "..a\r\n.\rx\r\nq\r\r\nb\nc\r\n".b ++ ".\r\n".b ++ "MAIL FROM:<bait@x>\r\n".b

example : terminated? exStream = some (".a\r\n\rx\r\nq\r\r\nb\nc\r\n".b, "MAIL FROM:<bait@x>\r\n".b) := by
  decide +kernel

example : (readSched {} exStream [3, 1, 2, 50, 50]).1.map Prod.snd = [.more, .more, .more, .eof] ∧
    outs (readSched {} exStream [3, 1, 2, 50, 50]).1 = ".a\r\n\rx\r\nq\r\r\nb\nc\r\n".b ∧
    (readSched {} exStream [3, 1, 2, 50, 50]).2.2 = "MAIL FROM:<bait@x>\r\n".b := by
  decide +kernel

end SmtpV.Props.C01
