import SmtpV.Proofs.ServerInv
import SmtpV.Model.Client
import SmtpV.Spec.Monitors
import SmtpV.Props.C03
import SmtpV.Proofs.OrderFacts
/-!
# C09 — AUTH is unreachable on insecure connections; the octets cross unaltered (server side)

Proved here: on a connection where AUTH is not permitted `handleAuth` consults nothing and writes
replies only; the base64 layer is exact (`decode ∘ encode = id` on all octet strings).  At-most-once and
the TLS-state rules are part of the ordering monitor (Spec/Order.lean), which accepts every connection of the
server model (`order_accepts_every_connection`); `C09_never_on_insecure_connection` and `C09_at_most_once` below
are its consequences stated on the trace itself.
-/
namespace SmtpV.Props.C09
open SmtpV SmtpV.Spec SmtpV.Server SmtpV.Reply

def isWrite (e : Ev) : Prop := ∃ bs, e = .w bs

/-- **C09_insecure_unreachable.**  Without TLS and without `AllowInsecureAuth` the AUTH command produces
    replies only: no `Auth(mech)` call, no octet handed to a SASL mechanism, no state change. -/
theorem C09_insecure_unreachable (s : S) (arg : Bytes) (h : authAllowed s = false) :
    (∀ e ∈ (handleAuth s arg).1.evs, e ∈ s.evs ∨ isWrite e) ∧ (handleAuth s arg).1.c = s.c ∧
    (handleAuth s arg).2 = false := by
  have key : ∀ code enh t, (∀ e ∈ (reply s code enh t).evs, e ∈ s.evs ∨ isWrite e) ∧ (reply s code enh t).c = s.c := by
    intro code enh t
    refine ⟨?_, reply_c _ _ _ _⟩
    intro e he
    rw [reply_evs] at he
    simp only [List.mem_append] at he
    rcases he with he | he
    · right; split at he
      · simp at he
      · simp at he; exact ⟨_, he⟩
    · left; exact he
  unfold handleAuth
  split
  · exact ⟨(key _ _ _).1, (key _ _ _).2, rfl⟩
  split
  · exact ⟨(key _ _ _).1, (key _ _ _).2, rfl⟩
  split
  · exact ⟨(key _ _ _).1, (key _ _ _).2, rfl⟩
  · simp only [h, Bool.not_false, if_true]
    exact ⟨(key _ _ _).1, (key _ _ _).2, trivial⟩

/-! ### base64 -/

theorem b64_char_facts : ∀ n : Fin 64, b64Val (b64Char n.val) = some n.val ∧ b64Char n.val ≠ 61 ∧
    b64Char n.val ≠ CR ∧ b64Char n.val ≠ LF := by decide

theorem b64Val_char (n : Nat) (h : n < 64) : b64Val (b64Char n) = some n := (b64_char_facts ⟨n, h⟩).1
theorem b64Char_ne_pad (n : Nat) (h : n < 64) : (b64Char n == 61) = false := by
  simpa using (b64_char_facts ⟨n, h⟩).2.1
theorem b64Char_keep (n : Nat) (h : n < 64) : (b64Char n != CR && b64Char n != LF) = true := by
  have := b64_char_facts ⟨n, h⟩
  simp [this.2.2.1, this.2.2.2]

theorem byte_ofNat (a : Byte) : UInt8.ofNat a.toNat = a := by simp

def keep (b : Byte) : Bool := b != CR && b != LF

theorem keep_char (n : Nat) (h : n < 64) : keep (b64Char n) = true := b64Char_keep n h
theorem keep_pad : keep 61 = true := by decide

/-- the encoder's output contains no CR or LF, so the decoder's filter leaves it alone -/
theorem filter_encode (x : Bytes) : (b64Encode x).filter keep = b64Encode x := by
  have hb : ∀ a : Byte, a.toNat < 256 := fun a => a.toNat_lt
  fun_induction b64Encode x with
  | case1 => rfl
  | case2 a v =>
    have := hb a
    rw [List.filter_cons_of_pos (keep_char _ (by omega)), List.filter_cons_of_pos (keep_char _ (by omega)),
      List.filter_cons_of_pos keep_pad, List.filter_cons_of_pos keep_pad]
    rfl
  | case3 a b v =>
    have := hb a; have := hb b
    rw [List.filter_cons_of_pos (keep_char _ (by omega)), List.filter_cons_of_pos (keep_char _ (by omega)),
      List.filter_cons_of_pos (keep_char _ (by omega)), List.filter_cons_of_pos keep_pad]
    rfl
  | case4 a b c t v ih =>
    have := hb a; have := hb b; have := hb c
    rw [List.filter_cons_of_pos (keep_char _ (by omega)), List.filter_cons_of_pos (keep_char _ (by omega)),
      List.filter_cons_of_pos (keep_char _ (by omega)), List.filter_cons_of_pos (keep_char _ (by omega)), ih]

theorem decodeAux_encode (x : Bytes) (fuel : Nat) (hf : x.length < fuel) :
    b64DecodeAux fuel (b64Encode x) = some x := by
  have hb : ∀ a : Byte, a.toNat < 256 := fun a => a.toNat_lt
  fun_induction b64Encode x generalizing fuel with
  | case1 => cases fuel <;> simp_all [b64DecodeAux]
  | case2 a v =>
    have hv : v = a.toNat := rfl
    clear_value v; subst hv
    have := hb a
    cases fuel with
    | zero => simp at hf
    | succ fuel =>
      simp only [b64DecodeAux, b64Val_char (a.toNat / 4) (by omega), b64Val_char ((a.toNat % 4) * 16) (by omega)]
      simp
      have : (a.toNat / 4 * 64 + a.toNat % 4 * 16) / 16 = a.toNat := by omega
      rw [this, byte_ofNat]
  | case3 a b v =>
    have hv : v = a.toNat * 256 + b.toNat := rfl
    clear_value v; subst hv
    have := hb a; have := hb b
    cases fuel with
    | zero => simp at hf
    | succ fuel =>
      simp only [b64DecodeAux, b64Val_char ((a.toNat * 256 + b.toNat) / 1024) (by omega),
        b64Val_char (((a.toNat * 256 + b.toNat) / 16) % 64) (by omega),
        b64Val_char (((a.toNat * 256 + b.toNat) % 16) * 4) (by omega),
        b64Char_ne_pad (((a.toNat * 256 + b.toNat) % 16) * 4) (by omega)]
      simp
      have e1 : (((a.toNat * 256 + b.toNat) / 1024 * 64 + (a.toNat * 256 + b.toNat) / 16 % 64) * 64 +
          (a.toNat * 256 + b.toNat) % 16 * 4) / 1024 = a.toNat := by omega
      have e2 : (((a.toNat * 256 + b.toNat) / 1024 * 64 + (a.toNat * 256 + b.toNat) / 16 % 64) * 64 +
          (a.toNat * 256 + b.toNat) % 16 * 4) / 4 % 256 = b.toNat := by omega
      rw [e1, e2, byte_ofNat, byte_ofNat]
      exact ⟨rfl, rfl⟩
  | case4 a b c t v ih =>
    have hv : v = (a.toNat * 256 + b.toNat) * 256 + c.toNat := rfl
    clear_value v; subst hv
    have := hb a; have := hb b; have := hb c
    cases fuel with
    | zero => simp at hf
    | succ fuel =>
      simp only [b64DecodeAux,
        b64Val_char (((a.toNat * 256 + b.toNat) * 256 + c.toNat) / 262144) (by omega),
        b64Val_char ((((a.toNat * 256 + b.toNat) * 256 + c.toNat) / 4096) % 64) (by omega),
        b64Val_char ((((a.toNat * 256 + b.toNat) * 256 + c.toNat) / 64) % 64) (by omega),
        b64Val_char (((a.toNat * 256 + b.toNat) * 256 + c.toNat) % 64) (by omega),
        b64Char_ne_pad ((((a.toNat * 256 + b.toNat) * 256 + c.toNat) / 64) % 64) (by omega),
        b64Char_ne_pad (((a.toNat * 256 + b.toNat) * 256 + c.toNat) % 64) (by omega)]
      simp only [Bool.false_eq_true, if_false]
      rw [ih fuel (by simp at hf; omega)]
      simp only [Option.map_some]
      have e0 : ((((a.toNat * 256 + b.toNat) * 256 + c.toNat) / 262144 * 64 +
          ((a.toNat * 256 + b.toNat) * 256 + c.toNat) / 4096 % 64) * 64 +
          ((a.toNat * 256 + b.toNat) * 256 + c.toNat) / 64 % 64) * 64 +
          ((a.toNat * 256 + b.toNat) * 256 + c.toNat) % 64 = (a.toNat * 256 + b.toNat) * 256 + c.toNat := by omega
      rw [e0]
      have e1 : ((a.toNat * 256 + b.toNat) * 256 + c.toNat) / 65536 = a.toNat := by omega
      have e2 : ((a.toNat * 256 + b.toNat) * 256 + c.toNat) / 256 % 256 = b.toNat := by omega
      have e3 : ((a.toNat * 256 + b.toNat) * 256 + c.toNat) % 256 = c.toNat := by omega
      rw [e1, e2, e3, byte_ofNat, byte_ofNat, byte_ofNat]

theorem encode_length (x : Bytes) : x.length ≤ (b64Encode x).length := by
  fun_induction b64Encode x <;> simp_all <;> omega

/-- **C09_octets_exact.**  What the mechanism receives is exactly what the peer encoded: base64 decoding
    inverts encoding on every octet string (empty and binary values included). -/
theorem C09_b64_roundtrip (x : Bytes) : b64Decode (b64Encode x) = some x := by
  unfold b64Decode
  have : (b64Encode x).filter (fun b => b != CR && b != LF) = b64Encode x := filter_encode x
  simp only [this]
  exact decodeAux_encode x _ (by have := encode_length x; omega)

/-- the `=` convention: an initial response written as `=` is the empty (non-nil) response -/
theorem C09_empty_initial_response : decodeSASLResponse [61] = some [] := by decide

example : b64Decode (b64Encode [0, 255, 254, 1]) = some [0, 255, 254, 1] := by decide +kernel
example : b64Decode "A===".b = none := by decide +kernel

/-! ### whole connections: consequences of the ordering theorem, stated on the trace -/
open SmtpV.Spec.Order in
/-- **C09_never_on_insecure_connection.**  On a connection that starts in plaintext and never completes a TLS
    handshake, with `AllowInsecureAuth` off: whatever the peer sends (any octets, any segmentation, any number of AUTH
    attempts, any pipelining) and whatever the backend would answer, the complete trace of the connection contains
    no `Auth(mech)` call and no SASL step — the mechanism never receives a single octet. -/
theorem C09_never_on_insecure_connection (s : S) (h : Props.C03.Fresh s) (hins : s.cfg.insecureAuth = false)
    (htls : s.c.tls = false) (hno : ∀ e ∈ (serve s).evs.reverse, isTlsUp e = false) :
    ∀ e ∈ (serve s).evs.reverse, isAuthEv e = false := by
  obtain ⟨m, hm⟩ := run_ok_of_check (Props.C03.order_accepts_every_connection s h)
  exact accepted_insecure_no_auth hm hins (by simp [abs, htls]) hno

open SmtpV.Spec.Order in
/-- **C09_at_most_once.**  On every connection: once a SASL exchange has succeeded, no `Auth(mech)` call and no SASL
    step happens until that session has ended (Logout — which is what STARTTLS and a new greeting do to it — and a
    new session). -/
theorem C09_at_most_once (s : S) (h : Props.C03.Fresh s) (pre mid post : List Ev) (e1 e2 : Ev)
    (htr : (serve s).evs.reverse = pre ++ e1 :: (mid ++ e2 :: post))
    (h1 : isAuthSuccess e1 = true) (h2 : isAuthEv e2 = true) : ∃ e ∈ mid, endsSession e = true := by
  obtain ⟨m, hm⟩ := run_ok_of_check (Props.C03.order_accepts_every_connection s h)
  rw [htr] at hm
  exact accepted_auth_once hm h1 h2

/-! ### the client's side of the exchange (client model) -/
open SmtpV.Client in
/-- **C09_client_exchange_rules.**  One round of `Client.Auth`'s loop on the client model, for every challenge, every mechanism
    script and every state: (1) a 334 whose text is not base64 is answered with the cancel token and reported as an error, the
    mechanism sees nothing; (2) a mechanism error on a decodable challenge is answered with the cancel token and reported as an
    error; (3) a mechanism response is sent base64-encoded as the next line — nothing else — and the exchange goes on with the
    server's answer; (4) 235 ends the exchange with success; (5) any other reply is the result, as an SMTP error. -/
theorem C09_client_exchange_rules (fuel : Nat) (c : C) (msg64 : Bytes) (steps : List (Option (Option Bytes))) (seen : List String) :
    (Server.b64Decode msg64 = none →
      authLoop (fuel + 1) c (.ok 334 msg64) steps seen = ((c.cmd 501 [42]).1, some .other, seen)) ∧
    (∀ ch, Server.b64Decode msg64 = some ch →
      authLoop (fuel + 1) c (.ok 334 msg64) (none :: steps) seen = ((c.cmd 501 [42]).1, some .other, seen ++ [hexOfBytes ch])) ∧
    (∀ ch resp, Server.b64Decode msg64 = some ch →
      authLoop (fuel + 1) c (.ok 334 msg64) (some (some resp) :: steps) seen =
        authLoop fuel (c.cmd 0 (Server.b64Encode resp)).1 (c.cmd 0 (Server.b64Encode resp)).2 steps (seen ++ [hexOfBytes ch])) ∧
    authLoop (fuel + 1) c (.ok 235 msg64) steps seen = (c, none, seen) ∧
    (∀ code, code ≠ 334 → code ≠ 235 →
      authLoop (fuel + 1) c (.ok code msg64) steps seen = ((c.cmd 501 [42]).1, some (.smtp (toSMTPErr code msg64)), seen)) := by
  refine ⟨?_, ?_, ?_, ?_, ?_⟩
  · intro h; simp [authLoop, h]
  · intro ch h; simp [authLoop, h]
  · intro ch resp h; simp [authLoop, h]
  · simp [authLoop]
  · intro code h1 h2; simp [authLoop, h1, h2]

end SmtpV.Props.C09
