import SmtpV.Model.Server
import SmtpV.Spec.Monitors
/-! # C09 (theorems follow) -/
namespace SmtpV.Props.C09
end SmtpV.Props.C09
