import SmtpV.Props.DataMonitor
import SmtpV.Proofs.BdatEof
import SmtpV.Proofs.CutLine
/-!
# C07 — an incomplete message is never presented to the backend as complete (DATA reader part)

BDAT (the delivery sees a clean end of file only after a LAST chunk copied in full; an abandoned transfer ends with
`ErrDataReset`) follows below, on the server model (`Proofs/BdatEof.lean`).
-/
namespace SmtpV.Props.C07
open SmtpV SmtpV.Spec SmtpV.DataReader

/-- **C07_data_cut.**  Cut the client's octet stream anywhere: if what arrived does not contain a
    complete terminated message, then no read — with any limit, any buffer sizes — reports EOF. -/
theorem C07_data_cut (lim : Option Nat) (s : Bytes) (cut : Nat) (sizes : List Nat)
    (hnot : ¬ ∃ body rest, Terminated (s.take cut) body rest) :
    ∀ x ∈ (readSched (freshReader lim) (s.take cut) sizes).1, x.2 ≠ .eof := by
  have h := data_monitor_accepts_model lim (s.take cut) sizes
  unfold DataMon.check at h
  rw [(terminated?_none _).mpr hnot] at h
  simp only [List.append_eq_nil_iff] at h
  have h2 := h.2
  intro x hx hxe
  have : ((readSched (freshReader lim) (s.take cut) sizes).1.any fun x => x.2 == Res.eof) = true := by
    simp only [List.any_eq_true, beq_iff_eq]; exact ⟨x, hx, hxe⟩
  rw [if_pos this] at h2
  simp at h2

/-- **C07_eof_complete.**  EOF is reported only when every octet of the message has been delivered. -/
theorem C07_eof_complete (lim : Option Nat) (s : Bytes) (sizes : List Nat) (x : Bytes × Res)
    (hx : (readSched (freshReader lim) s sizes).1.getLast? = some x) (hxe : x.2 = .eof) :
    ∃ body rest, Terminated s body rest ∧ outs (readSched (freshReader lim) s sizes).1 = body ∧
      (readSched (freshReader lim) s sizes).2.2 = rest :=
  ⟨_, _, sched_eof_terminated sizes (freshReader lim) s (by cases lim <;> rfl) x hx hxe, rfl, rfl⟩

/-- non-vacuity: the same message cut one octet before the end of the marker, and uncut -/
example :
    let s := "ab\r\n.\r\n".b
    ((readSched {} (s.take 6) [9, 9]).1.map Prod.snd = [.ueof]) ∧
    ((readSched {} (s.take 7) [9, 9]).1.map Prod.snd = [.eof]) := by
  decide +kernel

/-! ### chunked transfers on the server model -/
open SmtpV.Server

/-- **C07_bdat_eof_only_after_last.**  Executing an accepted `BDAT` command — whatever state the connection is in, whatever
    the backend does with the octets, however the chunk arrives or fails to arrive — records a clean end of file for a
    delivery only if the command carried `LAST`; and (second part) what follows the copy of a chunk records one only if,
    in addition, the copy of the chunk was complete. -/
theorem C07_bdat_eof_only_after_last (s : S) (size : Nat) (last : Bool) (j : Nat) :
    (eofAt (bdatChunk s size last).1 j → eofAt s j ∨ last = true) ∧
    (∀ k left ce, eofAt (bdatAfterCopy s k size left last ce).1 j → eofAt s j ∨ (last = true ∧ ce = .done)) :=
  ⟨bdatChunk_eof s size last j, fun k left ce h => bdatAfterCopy_eof s k size left last ce j h⟩

/-- **C07_abandoned_is_reset.**  A chunked transfer that is running when the transaction is reset (RSET, a new greeting,
    STARTTLS, a failed chunk) or the connection is closed (QUIT, too many errors, a lost or timed-out connection, Close)
    ends with `ErrDataReset` — its reader never reports end of file. -/
theorem C07_abandoned_is_reset (s : S) (k : Nat) (hb : s.c.bdat = some k) (hr : delivRunning s k = true) :
    (∃ d', (resetConn s).drecs[k]? = some d' ∧ d'.rdEnd = .reset ∧ d'.finished = true) ∧
    (∃ d', (closeConn s).drecs[k]? = some d' ∧ d'.rdEnd = .reset ∧ d'.finished = true) :=
  abandoned_is_reset s k hb hr

/-- resetting and closing never add an end-of-file record, whatever the state -/
theorem C07_reset_close_no_eof (s : S) : NoNewEof s (resetConn s) ∧ NoNewEof s (closeConn s) :=
  ⟨nne_resetConn s, nne_closeConn s⟩

/-- **C07_cut_connection_no_eof.**  The connection ends — the peer disconnects, or the idle timeout fires — while no line feed is
    pending: in the middle of a command line, for instance of the `BDAT 0 LAST` that would have completed the message.  The rest of
    the connection (the command loop, then the deferred `Close`) records no end of file for any delivery: a transfer that was open
    stays incomplete.  (Before e062bf7 the unterminated `BDAT 0 LAST` was executed and the message reported complete.) -/
theorem C07_cut_connection_no_eof (fuel : Nat) (s : S) (h : NoLF (pending s.w)) : NoNewEof s (closeConn (loop fuel s)) := by
  have hl : NoNewEof s (loop fuel s) := by
    cases fuel with
    | zero => exact NoNewEof.rfl' s
    | succ fuel =>
      unfold loop
      split
      · exact NoNewEof.rfl' s
      · obtain ⟨e, he⟩ := readLine_cut s.w h
        have hd : (connReadLine s).1.drecs = s.drecs := by
          unfold connReadLine; rcases Wire.readLine s.w with ⟨w1, r⟩; rfl
        have he' : (connReadLine s).2 = .error e := by
          unfold connReadLine
          rcases hr : Wire.readLine s.w with ⟨w1, r⟩
          rw [hr] at he
          exact he
        rcases hr : connReadLine s with ⟨s1, r⟩
        rw [hr] at hd he'
        simp only [] at hd he' ⊢
        subst he'
        have h1 : NoNewEof s s1 := NoNewEof.of_drecs hd
        cases e with
        | eof => exact h1
        | closed => exact h1
        | tooLong => exact h1.trans (nne_reply _ _ _ _)
        | timeout => exact h1.trans (nne_reply _ _ _ _)
  exact hl.trans (nne_closeConn _)

end SmtpV.Props.C07
