import SmtpV.Props.DataMonitor
/-!
# C07 — an incomplete message is never presented to the backend as complete (DATA reader part)

BDAT (pipe closed cleanly only after a LAST chunk copied in full) is in Props/C07Conv.lean.
-/
namespace SmtpV.Props.C07
open SmtpV SmtpV.Spec SmtpV.DataReader

/-- **C07_data_cut.**  Cut the client's octet stream anywhere: if what arrived does not contain a
    complete terminated message, then no read — with any limit, any buffer sizes — reports EOF. -/
theorem C07_data_cut (lim : Option Nat) (s : Bytes) (cut : Nat) (sizes : List Nat)
    (hnot : ¬ ∃ body rest, Terminated (s.take cut) body rest) :
    ∀ x ∈ (readSched (freshReader lim) (s.take cut) sizes).1, x.2 ≠ .eof := by
  have h := data_monitor_accepts_model lim (s.take cut) sizes
  unfold DataMon.check at h
  rw [(terminated?_none _).mpr hnot] at h
  simp only [List.append_eq_nil_iff] at h
  have h2 := h.2
  intro x hx hxe
  have : ((readSched (freshReader lim) (s.take cut) sizes).1.any fun x => x.2 == Res.eof) = true := by
    simp only [List.any_eq_true, beq_iff_eq]; exact ⟨x, hx, hxe⟩
  rw [if_pos this] at h2
  simp at h2

/-- **C07_eof_complete.**  EOF is reported only when every octet of the message has been delivered. -/
theorem C07_eof_complete (lim : Option Nat) (s : Bytes) (sizes : List Nat) (x : Bytes × Res)
    (hx : (readSched (freshReader lim) s sizes).1.getLast? = some x) (hxe : x.2 = .eof) :
    ∃ body rest, Terminated s body rest ∧ outs (readSched (freshReader lim) s sizes).1 = body ∧
      (readSched (freshReader lim) s sizes).2.2 = rest :=
  ⟨_, _, sched_eof_terminated sizes (freshReader lim) s (by cases lim <;> rfl) x hx hxe, rfl, rfl⟩

/-- non-vacuity: the same message cut one octet before the end of the marker, and uncut -/
example :
    let s := "ab\r\n.\r\n".b
    ((readSched {} (s.take 6) [9, 9]).1.map Prod.snd = [.ueof]) ∧
    ((readSched {} (s.take 7) [9, 9]).1.map Prod.snd = [.eof]) := by
  decide +kernel

end SmtpV.Props.C07
