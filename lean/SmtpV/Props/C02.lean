import SmtpV.Props.DataMonitor
/-!
# C02 — only `CRLF.CRLF` ends DATA; commands resume exactly after it (reader part)

The conversation-level half (`C02_resume` on the wire model: whatever the backend does, the
next command is the line after the marker) lives in Props/C02Conv.lean.
-/
namespace SmtpV.Props.C02
open SmtpV SmtpV.Spec SmtpV.DataReader

/-- **C02_only_marker.**  The reader's greedy run reaches end-of-data **iff** the stream is
    terminated in the sense of the specification (body lines, then `.CRLF` at a line start). -/
theorem C02_only_marker (s : Bytes) :
    (run .bol s).1 = .eof ↔ ∃ body rest, Terminated s body rest := run_eof_iff s

/-- **C02_eof_means_marker.**  For every input, every limit and every read schedule: if a read
    reports EOF then the input is a terminated stream, what was handed over is exactly its body and
    what is left unread is exactly what follows the marker. -/
theorem C02_eof_means_marker (lim : Option Nat) (s : Bytes) (sizes : List Nat) (x : Bytes × Res)
    (hx : (readSched (freshReader lim) s sizes).1.getLast? = some x) (hxe : x.2 = .eof) :
    Terminated s (outs (readSched (freshReader lim) s sizes).1) (readSched (freshReader lim) s sizes).2.2 :=
  sched_eof_terminated sizes (freshReader lim) s (by cases lim <;> rfl) x hx hxe

/-- None of the look-alikes ends a message: a stream that consists of one of them (after some
    text) followed by anything is not terminated unless a real marker follows later.  Stated on
    the recogniser for the four sequences of the property, each followed by a bait command. -/
theorem C02_lookalikes :
    terminated? ("a\n.\nMAIL\r\n".b) = none ∧
    terminated? ("a\n.\r\nMAIL\r\n".b) = none ∧
    terminated? ("a\r\n.\nMAIL\r\n".b) = none ∧
    terminated? ("a\r.\rMAIL\r\n".b) = none ∧
    terminated? ("a\r\n.\r\nMAIL\r\n".b) = some ("a\r\n".b, "MAIL\r\n".b) := by
  decide +kernel

/-- the look-alikes inside a message that does end: they are delivered as data, nothing is cut -/
example : terminated? ("x\n.\ny\n.\r\nz\r\n.\nw\r.\rv\r\n.\r\nNOOP\r\n".b) =
    some ("x\n.\ny\n.\r\nz\r\n\nw\r.\rv\r\n".b, "NOOP\r\n".b) := by decide +kernel

end SmtpV.Props.C02
