import SmtpV.Props.DataMonitor
import SmtpV.Proofs.DataResume
import SmtpV.Proofs.WireInv
/-!
# C02 — only `CRLF.CRLF` ends DATA; commands resume exactly after it (reader part)

The conversation-level half follows: `C02_resume` on the server and wire model — whatever the backend
does, the stream the command loop reads next starts exactly behind the marker.
-/
namespace SmtpV.Props.C02
open SmtpV SmtpV.Spec SmtpV.DataReader

/-- **C02_only_marker.**  The reader's greedy run reaches end-of-data **iff** the stream is
    terminated in the sense of the specification (body lines, then `.CRLF` at a line start). -/
theorem C02_only_marker (s : Bytes) :
    (run .bol s).1 = .eof ↔ ∃ body rest, Terminated s body rest := run_eof_iff s

/-- **C02_eof_means_marker.**  For every input, every limit and every read schedule: if a read
    reports EOF then the input is a terminated stream, what was handed over is exactly its body and
    what is left unread is exactly what follows the marker. -/
theorem C02_eof_means_marker (lim : Option Nat) (s : Bytes) (sizes : List Nat) (x : Bytes × Res)
    (hx : (readSched (freshReader lim) s sizes).1.getLast? = some x) (hxe : x.2 = .eof) :
    Terminated s (outs (readSched (freshReader lim) s sizes).1) (readSched (freshReader lim) s sizes).2.2 :=
  sched_eof_terminated sizes (freshReader lim) s (by cases lim <;> rfl) x hx hxe

/-- None of the look-alikes ends a message: a stream that consists of one of them (after some
    text) followed by anything is not terminated unless a real marker follows later.  Stated on
    the recogniser for the four sequences of the property, each followed by a bait command. -/
theorem C02_lookalikes :
    terminated? ("a\n.\nMAIL\r\n".b) = none ∧
    terminated? ("a\n.\r\nMAIL\r\n".b) = none ∧
    terminated? ("a\r\n.\nMAIL\r\n".b) = none ∧
    terminated? ("a\r.\rMAIL\r\n".b) = none ∧
    terminated? ("a\r\n.\r\nMAIL\r\n".b) = some ("a\r\n".b, "MAIL\r\n".b) := by
  decide +kernel

/-- the look-alikes inside a message that does end: they are delivered as data, nothing is cut -/
example : terminated? ("x\n.\ny\n.\r\nz\r\n.\nw\r.\rv\r\n.\r\nNOOP\r\n".b) =
    some ("x\n.\ny\n.\r\nz\r\n\nw\r.\rv\r\n".b, "NOOP\r\n".b) := by decide +kernel

/-! ### resumption: the server's DATA handler on the wire model -/
open SmtpV.Server SmtpV.Wire

/-- **C02_resume.**  For every state of the server model in which `DATA` has been accepted, every backend behaviour
    scripted for the delivery (how much it reads, in which read sizes, what it returns, panics), every size limit,
    SMTP, LMTP and LMTP with a per-recipient backend, and every way the connection's octets are cut into network
    segments and already sit in bufio's buffer: when the handler returns, either a panic escapes (`handle` then
    closes the connection), or the connection is closed, or the line limiter has latched, or nothing at all is left
    to read, or the octet stream the handler started on was a terminated message — what the backend was handed is a
    prefix of its unstuffed body — and **what the command loop will read next is exactly what follows the marker**. -/
theorem C02_resume (s : S) (id : Nat) (hwf : WF s.w) :
    (dataSync s id).2 = true ∨ (dataSync s id).1.c.closed = true ∨
    ∃ octets, (dataSync s id).1.w.tripped = true ∨ pending (dataSync s id).1.w = [] ∨
      ∃ tail rest, Terminated (pending s.w) (octets ++ tail) rest ∧ pending (dataSync s id).1.w = rest :=
  dataSync_resume s id hwf

/-- the two escape clauses of `C02_resume` execute no command: once the limiter has latched, and on a stream with
    nothing left, the next `readLine` of the command loop reports an error (and the loop ends the connection) -/
theorem C02_resume_escapes (w : W) (hwf : WF w) (h : w.tripped = true ∨ pending w = []) :
    ∃ e, (readLine w).2 = .error e := by
  rcases h with h | h
  · exact readLine_tripped w h
  · exact readLine_dry w hwf h

/-- the hypothesis of `C02_resume` is met by any wire of non-empty segments with no latched error -/
theorem C02_wf_fresh (w : W) (hne : ∀ x ∈ w.segs, x ≠ []) (he : w.err = none) : WF w :=
  ⟨hne, by rw [he]; intro h; cases h⟩

example : WF ({ segs := ["a\r\n.\r".b, "\nNOOP\r\n".b], limit := 2000 } : W) :=
  C02_wf_fresh _ (by decide) rfl

/-! ### the hypothesis of `C02_resume` holds at every command of every connection -/

/-- a connection starts well-formed when the network hands over non-empty segments (on both streams: the one in
    use and the one inside TLS) and no error is latched -/
theorem C02_wf_initial (s : S) (hne : ∀ x ∈ s.w.segs, x ≠ []) (he : s.w.err = none)
    (ht : ∀ t, s.tlsW = some t → ∀ x ∈ t.segs, x ≠ []) : WFS s :=
  ⟨C02_wf_fresh s.w hne he, ht⟩

/-- **C02_wf_invariant.**  Reading a command line, executing any command (every handler: greeting, MAIL, RCPT, DATA,
    BDAT with its chunk copies and discards, AUTH with its SASL lines, STARTTLS with the switch to the TLS stream,
    errors and panics) and the whole connection preserve the well-formedness that `C02_resume` assumes — so the
    resumption theorem applies to the `DATA` command wherever it occurs in a connection. -/
theorem C02_wf_invariant (s : S) (h : WFS s) :
    WFS (connReadLine s).1 ∧ (∀ cmd arg, WFS (handle s cmd arg)) ∧ WFS (serve s) :=
  ⟨wfs_connReadLine s h, fun cmd arg => wfs_handle s cmd arg h, wfs_serve s h⟩

/-- `C02_resume` for a `DATA` command anywhere in a connection: the state needs nothing but the invariant -/
theorem C02_resume_anywhere (s : S) (id : Nat) (h : WFS s) :
    (dataSync s id).2 = true ∨ (dataSync s id).1.c.closed = true ∨
    ∃ octets, (dataSync s id).1.w.tripped = true ∨ pending (dataSync s id).1.w = [] ∨
      ∃ tail rest, Terminated (pending s.w) (octets ++ tail) rest ∧ pending (dataSync s id).1.w = rest :=
  C02_resume s id h.w

end SmtpV.Props.C02
