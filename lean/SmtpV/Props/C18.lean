import SmtpV.Model.Client
import SmtpV.Spec.ClientMon
import SmtpV.Proofs.ClientFrame
/-!
# C18 — LMTP client reports each recipient's own status, transaction after transaction

Model level (`Client.C.call`, `Client.lmtpReplies`; tied to client.go by the `cconv` correspondence).
Two halves: the client's recipient list is exactly the recipients accepted since the last accepted MAIL
(so the second and later transactions start clean), and the reply loop of `Close` reads one reply per entry
of that list, in order, handing each to the callback — or, without callback, keeping the first refusal as
`Close`'s error.
-/
namespace SmtpV.Props.C18
open SmtpV SmtpV.Client

theorem showErr_smtp_ne (x : SErr) : showErr (some (.smtp x)) ≠ "nil" := by
  intro h
  have h' := congrArg String.toList h
  simp only [showErr, String.toList_append, show (toString "se~") = "se~" from rfl] at h'
  have : ("se~" : String).toList = ['s', 'e', '~'] := by decide
  rw [this] at h'
  simp at h'

theorem showErr_nil (e : Option CErr) : showErr e = "nil" ↔ e = none := by
  cases e with
  | none => simp [showErr]
  | some e =>
    cases e with
    | smtp x => simp [showErr_smtp_ne]
    | other => simp [showErr]

/-- **C18_mail_starts_clean.**  An accepted MAIL leaves no recipient of an earlier transaction behind; a MAIL that
    is not accepted changes nothing. -/
theorem C18_mail_starts_clean (c : C) (frm : Bytes) (o : Option MailOptions) :
    ((c.call (.mail frm o)).2.res = "nil" → (c.call (.mail frm o)).1.rcpts = []) ∧
    ((c.call (.mail frm o)).2.res ≠ "nil" → (c.call (.mail frm o)).1.rcpts = c.rcpts) := by
  unfold C.call
  simp only []
  split
  · simp [showErr]
  · have hh := hello_rcpts { c with out := c.carry, carry := [] }
    generalize C.hello { c with out := c.carry, carry := [] } = p1 at hh ⊢
    obtain ⟨c1, e1⟩ := p1
    simp only [] at hh
    cases e1 with
    | some e => simp [showErr_nil, hh]
    | none =>
      simp only []
      split
      · simp [showErr, hh]
      · rename_i l _
        have h1 := cmd_rcpts c1 250 l
        generalize C.cmd c1 250 l = p2 at h1 ⊢
        obtain ⟨c2, r2⟩ := p2
        simp only [] at h1
        cases r2 <;> simp [showErr_nil, rrErr, h1, hh]

/-- **C18_rcpt_appends.**  An accepted RCPT appends that recipient; a refused one changes nothing. -/
theorem C18_rcpt_appends (c : C) (to : Bytes) (o : Option RcptOptions) :
    ((c.call (.rcpt to o)).2.res = "nil" → (c.call (.rcpt to o)).1.rcpts = c.rcpts ++ [to]) ∧
    ((c.call (.rcpt to o)).2.res ≠ "nil" → (c.call (.rcpt to o)).1.rcpts = c.rcpts) := by
  unfold C.call
  simp only []
  split
  · simp [showErr]
  · rename_i l _
    have h1 := cmd_rcpts { c with out := c.carry, carry := [] } 25 l
    generalize C.cmd { c with out := c.carry, carry := [] } 25 l = p2 at h1 ⊢
    obtain ⟨c2, r2⟩ := p2
    simp only [] at h1
    cases r2 <;> simp [showErr_nil, rrErr, h1]

/-- **C18_reset_clears.**  An accepted RSET empties the list; a failed one changes nothing. -/
theorem C18_reset_clears (c : C) :
    ((c.call .reset).2.res = "nil" → (c.call .reset).1.rcpts = []) ∧
    ((c.call .reset).2.res ≠ "nil" → (c.call .reset).1.rcpts = c.rcpts) := by
  unfold C.call
  simp only []
  have hh := hello_rcpts { c with out := c.carry, carry := [] }
  generalize C.hello { c with out := c.carry, carry := [] } = p1 at hh ⊢
  obtain ⟨c1, e1⟩ := p1
  simp only [] at hh
  cases e1 with
  | some e => simp [showErr_nil, hh]
  | none =>
    simp only []
    have h1 := cmd_rcpts c1 250 "RSET".b
    generalize C.cmd c1 250 "RSET".b = p2 at h1 ⊢
    obtain ⟨c2, r2⟩ := p2
    simp only [] at h1
    cases r2 <;> simp [showErr_nil, rrErr, h1, hh]

/-! ### the reply loop of `Close` -/

/-- the recipient a callback entry is about -/
def cbRcpt (entry : String) : String := (entry.splitOn "=").headD ""

/-- **C18_one_callback_per_recipient.**  With a callback, the loop produces callback entries for a prefix of the
    recipient list, in order, one each — the whole list unless reading a reply failed (connection trouble),
    in which case `Close` reports an error. -/
theorem C18_one_callback_per_recipient (rcpts : List Bytes) : ∀ (c : C) (first : Option CErr) (cbs : List String),
    ∃ k, k ≤ rcpts.length ∧
      (lmtpReplies rcpts c true first cbs).2.2.length = cbs.length + k ∧
      (lmtpReplies rcpts c true first cbs).2.2.take cbs.length = cbs ∧
      (k = rcpts.length ∨ (lmtpReplies rcpts c true first cbs).2.1 = some .other) ∧
      ∀ i, i < k → ∃ e, (lmtpReplies rcpts c true first cbs).2.2[cbs.length + i]? = some e ∧
        ∃ r, rcpts[i]? = some r ∧ ∃ v, e = hexOfBytes r ++ "=" ++ v := by
  induction rcpts with
  | nil => intro c first cbs; exact ⟨0, by simp [lmtpReplies]⟩
  | cons r rest ih =>
    intro c first cbs
    simp only [lmtpReplies]
    generalize c.read 250 = p
    obtain ⟨c1, rr⟩ := p
    cases rr with
    | ok code msg =>
      simp only [if_true]
      obtain ⟨k, hk, hlen, htake, hall, hidx⟩ := ih c1 first (cbs ++ [hexOfBytes r ++ "=nil"])
      refine ⟨k + 1, by simp; omega, by simp at hlen ⊢; omega, ?_, ?_, ?_⟩
      · have := congrArg (List.take cbs.length) htake
        simpa [List.take_take, Nat.min_eq_left (Nat.le_succ _)] using this
      · rcases hall with h | h
        · left; simp [h]
        · right; exact h
      · intro i hi
        cases i with
        | zero =>
          have h0 : ((lmtpReplies rest c1 true first (cbs ++ [hexOfBytes r ++ "=nil"])).2.2.take (cbs.length + 1))[cbs.length]? =
              some (hexOfBytes r ++ "=nil") := by
            have : (cbs ++ [hexOfBytes r ++ "=nil"]).length = cbs.length + 1 := by simp
            rw [← this, htake]; simp
          refine ⟨hexOfBytes r ++ "=nil", ?_, r, by simp, "nil", by simp [String.append_assoc]⟩
          rw [List.getElem?_take] at h0
          simpa using h0
        | succ i =>
          obtain ⟨e, he, r', hr', v, hv⟩ := hidx i (by omega)
          refine ⟨e, ?_, r', by simpa using hr', v, hv⟩
          have : (cbs ++ [hexOfBytes r ++ "=nil"]).length + i = cbs.length + (i + 1) := by simp; omega
          rw [← this]; exact he
    | smtpErr e0 =>
      simp only [if_true]
      obtain ⟨k, hk, hlen, htake, hall, hidx⟩ :=
        ih c1 first (cbs ++ [hexOfBytes r ++ "=" ++ showErr (some (.smtp e0))])
      refine ⟨k + 1, by simp; omega, by simp at hlen ⊢; omega, ?_, ?_, ?_⟩
      · have := congrArg (List.take cbs.length) htake
        simpa [List.take_take, Nat.min_eq_left (Nat.le_succ _)] using this
      · rcases hall with h | h
        · left; simp [h]
        · right; exact h
      · intro i hi
        cases i with
        | zero =>
          have h0 : ((lmtpReplies rest c1 true first (cbs ++ [hexOfBytes r ++ "=" ++ showErr (some (.smtp e0))])).2.2.take
              (cbs.length + 1))[cbs.length]? = some (hexOfBytes r ++ "=" ++ showErr (some (.smtp e0))) := by
            have : (cbs ++ [hexOfBytes r ++ "=" ++ showErr (some (.smtp e0))]).length = cbs.length + 1 := by simp
            rw [← this, htake]; simp
          refine ⟨_, ?_, r, by simp, showErr (some (.smtp e0)), rfl⟩
          rw [List.getElem?_take] at h0
          simpa using h0
        | succ i =>
          obtain ⟨e, he, r', hr', v, hv⟩ := hidx i (by omega)
          refine ⟨e, ?_, r', by simpa using hr', v, hv⟩
          have : (cbs ++ [hexOfBytes r ++ "=" ++ showErr (some (.smtp e0))]).length + i = cbs.length + (i + 1) := by
            simp; omega
          rw [← this]; exact he
    | proto => exact ⟨0, by simp⟩
    | io => exact ⟨0, by simp⟩

/-- **C18_refusal_not_lost.**  Without a callback a refusal of any recipient after DATA is `Close`'s error: if
    `Close` reports success, every reply that was read was positive. -/
theorem C18_refusal_not_lost (rcpts : List Bytes) : ∀ (c : C) (first : Option CErr) (cbs : List String),
    (lmtpReplies rcpts c false first cbs).2.1 = none → first = none := by
  induction rcpts with
  | nil => intro c first cbs h; simpa [lmtpReplies] using h
  | cons r rest ih =>
    intro c first cbs h
    simp only [lmtpReplies] at h
    generalize c.read 250 = p at h
    obtain ⟨c1, rr⟩ := p
    cases rr with
    | ok code msg => exact ih c1 first _ (by simpa using h)
    | smtpErr e0 =>
      simp only [Bool.false_eq_true, if_false] at h
      have := ih c1 _ cbs h
      cases first <;> simp_all
    | proto => simp at h
    | io => simp at h

end SmtpV.Props.C18
