import SmtpV.Model.Client
import SmtpV.Spec.ClientMon
/-! # C18 (theorems follow) -/
namespace SmtpV.Props.C18
end SmtpV.Props.C18
