import SmtpV.Spec.Events
/-!
The *ordering* monitor: one judge for every rule about which backend callbacks may occur when
(C03 transaction order, C08 session lifecycle, C09 reachability of AUTH, C10 the TLS state a new
session sees).  It reads the trace only.  The per-property monitors of Spec/Monitors.lean are
projections of it (proved in Props/Projections.lean).
-/
namespace SmtpV.Spec.Order
open SmtpV SmtpV.Spec

structure A where
  live : Option Nat := none     -- the session that is logged in
  nextId : Nat := 0             -- number of NewSession calls so far
  closed : Bool := false        -- the connection has been closed
  tls : Bool := false           -- TLS is active on the connection
  upgrading : Bool := false     -- a STARTTLS handshake has just succeeded; the old session must be logged out next
  mailOk : Bool := false        -- a Mail of the current transaction has been accepted
  nrcpt : Nat := 0              -- recipients accepted in the current transaction
  transfer : Bool := false      -- a Data/LMTPData call has begun in the current transaction
  authed : Bool := false        -- an AUTH exchange has succeeded in the live session
deriving Repr, DecidableEq, Inhabited

/-- right after a successful STARTTLS with a session still logged in, only its Logout may follow -/
@[simp] def blocked (m : A) (e : Ev) : Bool :=
  m.upgrading && m.live.isSome && (match e with | .logout _ => false | _ => true)

/-- the rules proper, event by event -/
@[simp] def core (cfg : Cfg) (m : A) (e : Ev) : Except String A :=
  match e with
  | .w _ => if m.closed then .error "C08 write after the connection was closed" else .ok { m with upgrading := false }
  | .cmd _ => if m.closed then .error "C08 a command was read after the connection was closed" else .ok { m with upgrading := false }
  | .panicLog => .ok m
  | .tlsStart ok =>
    if m.closed then .error "C08 TLS handshake after close"
    else if m.tls then .error "C10 STARTTLS accepted although TLS is already active"
    else if !cfg.tlsAvail then .error "C10 STARTTLS accepted although TLS is not configured"
    else .ok (if ok then { m with tls := true, upgrading := m.live.isSome } else m)      -- (only a live session has to be logged out)
  | .close =>
    if m.closed then .error "C08 closed twice"
    else if m.live.isSome then .error "C08 connection closed while a session is still logged in"
    else .ok { m with closed := true }
  | .ns id helo tls r =>
    if m.closed then .error "C08 NewSession after the connection ended"
    else if m.live.isSome then .error "C03/C08 NewSession while a session is live"
    else if id != m.nextId then .error "C08 session identities out of order"
    else if tls != m.tls then .error "C03/C10 the TLS state seen by NewSession is not the connection's"
    else if helo.isEmpty then .error "C03 NewSession without a greeting name"
    else .ok { m with nextId := id + 1, live := if r == .ok then some id else none, upgrading := false,
                      mailOk := false, nrcpt := 0, transfer := false, authed := false }
  | .logout id =>
    if m.live != some id then .error "C08 Logout on a session that is not live"
    else .ok { m with live := none, upgrading := false, mailOk := false, nrcpt := 0, transfer := false, authed := false }
  | .reset id =>
    if m.live != some id then .error "C03/C08 Reset on a session that is not live"
    else .ok { m with mailOk := false, nrcpt := 0, transfer := false }
  | .mail id _ _ r =>
    if m.live != some id then .error "C03/C08 Mail without a live session created by a greeting"
    else if m.transfer then .error "C03 Mail while a message transfer of the current transaction has begun"
    else .ok (if r == .ok then { m with mailOk := true } else m)
  | .rcpt id _ _ r =>
    if m.live != some id then .error "C03/C08 Rcpt without a live session"
    else if !m.mailOk then .error "C03 Rcpt without an accepted Mail of the current transaction"
    else if m.transfer then .error "C03 Rcpt after the message transfer has begun"
    else if cfg.maxRcpt > 0 && m.nrcpt ≥ cfg.maxRcpt then .error "C03 more accepted recipients than the configured maximum"
    else .ok (if r == .ok then { m with nrcpt := m.nrcpt + 1 } else m)
  | .dataBegin id _ =>
    if m.live != some id then .error "C03/C08 Data without a live session"
    else if !m.mailOk then .error "C03 Data without an accepted Mail"
    else if m.nrcpt == 0 then .error "C03 Data without an accepted Rcpt of the current transaction"
    else if m.transfer then .error "C03 a second Data in one transaction"
    else .ok { m with transfer := true }
  | .authMech id _ _ =>
    if m.live != some id then .error "C08/C09 Auth without a live session (no greeting)"
    else if !(m.tls || cfg.insecureAuth) then .error "C09 SASL mechanism consulted on an insecure connection"
    else if m.authed then .error "C09 Auth after a successful authentication"
    else .ok m
  | .sasl _ _ done r =>
    if m.live.isNone then .error "C08/C09 SASL step without a live session"
    else if !(m.tls || cfg.insecureAuth) then .error "C09 SASL mechanism received octets on an insecure connection"
    else if m.authed then .error "C09 SASL step after a successful authentication"
    else .ok (if done && r == .ok then { m with authed := true } else m)

def step (cfg : Cfg) (m : A) (e : Ev) : Except String A :=
  if blocked m e then
    .error "C10 after a successful STARTTLS the plaintext session must be logged out before anything else"
  else core cfg m e

def run (cfg : Cfg) : A → List Ev → Except String A
  | m, [] => .ok m
  | m, e :: t =>
    match step cfg m e with
    | .ok m' => run cfg m' t
    | .error r => .error r

/-- a complete trace: the connection was closed and nobody is left logged in -/
def fin (m : A) : List String :=
  (if m.live.isSome then ["C08 a session was never logged out"] else []) ++
  (if !m.closed then ["C08 the trace ends without the connection being closed"] else [])

def check (cfg : Cfg) (init : A) (evs : List Ev) : List String :=
  match run cfg init evs with
  | .ok m => fin m
  | .error r => [r]

theorem run_append (cfg : Cfg) (m : A) (a b : List Ev) :
    run cfg m (a ++ b) = (match run cfg m a with | .ok m' => run cfg m' b | .error r => .error r) := by
  induction a generalizing m with
  | nil => simp [run]
  | cons e a ih =>
    simp only [List.cons_append, run]
    cases step cfg m e <;> simp [ih]

end SmtpV.Spec.Order
