import SmtpV.Basic
/-!
A strict recogniser for the server's reply stream (RFC 5321 §4.2, RFC 2034): three digits,
`-` or SP, text, CRLF; a multi-line reply repeats its code and ends with an SP line.
-/
namespace SmtpV.Spec.ReplySyntax
open SmtpV

structure RLine where
  code : Nat
  last : Bool
  text : Bytes
deriving Repr, DecidableEq, Inhabited

structure Reply where
  code : Nat
  lines : List Bytes        -- the text of each line, code and separator removed
deriving Repr, DecidableEq, Inhabited

def isDigit (b : Byte) : Bool := 48 ≤ b.toNat && b.toNat ≤ 57

/-- split at CRLF; `none` if the stream does not end with CRLF (an unfinished line) -/
def splitCRLF : Bytes → Bytes → List Bytes → Option (List Bytes)
  | [], cur, acc => if cur.isEmpty then some acc.reverse else none
  | 13 :: 10 :: t, cur, acc => splitCRLF t [] (cur.reverse :: acc)
  | c :: t, cur, acc => splitCRLF t (c :: cur) acc

def parseLine (l : Bytes) : Option RLine :=
  match l with
  | a :: b :: c :: sep :: text =>
    if isDigit a && isDigit b && isDigit c && (sep == 32 || sep == 45) then
      some { code := (a.toNat - 48) * 100 + (b.toNat - 48) * 10 + (c.toNat - 48), last := sep == 32, text := text }
    else none
  | _ => none

def group : List RLine → Option Nat → List Bytes → List Reply → Option (List Reply)
  | [], none, _, acc => some acc.reverse
  | [], some _, _, _ => none                       -- a multi-line reply that never ends
  | l :: t, cur, ls, acc =>
    match cur with
    | some c => if l.code != c then none
                else if l.last then group t none [] ({ code := c, lines := (l.text :: ls).reverse } :: acc)
                else group t (some c) (l.text :: ls) acc
    | none => if l.last then group t none [] ({ code := l.code, lines := [l.text] } :: acc)
              else group t (some l.code) [l.text] acc

/-- the reply stream as a list of replies, or `none` if it is not syntactically a reply stream -/
def parse (bs : Bytes) : Option (List Reply) :=
  match splitCRLF bs [] [] with
  | none => none
  | some ls =>
    match ls.mapM parseLine with
    | none => none
    | some rls => group rls none [] []

/-- text octets allowed in a reply line: HT, printable ASCII, and (UTF-8) octets ≥ 0x80 -/
def textOk (t : Bytes) : Bool := t.all (fun b => b == 9 || (32 ≤ b.toNat && b.toNat ≤ 126) || b.toNat ≥ 128)

/-- `d.d.d ` prefix of a line's text: the three numbers -/
def enhOf (t : Bytes) : Option (Nat × Nat × Nat) :=
  let num (s : Bytes) : Option Nat :=
    if s.isEmpty || !s.all isDigit then none else some (s.foldl (fun a b => a * 10 + (b.toNat - 48)) 0)
  let tok := t.takeWhile (· != 32)
  if tok.length == t.length then none   -- no SP after the token
  else
    let p1 := tok.takeWhile (· != 46)
    let r1 := (tok.dropWhile (· != 46)).drop 1
    let p2 := r1.takeWhile (· != 46)
    let p3 := (r1.dropWhile (· != 46)).drop 1
    match num p1, num p2, num p3 with
    | some a, some b, some c => some (a, b, c)
    | _, _, _ => none

end SmtpV.Spec.ReplySyntax
