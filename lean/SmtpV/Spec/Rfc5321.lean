import SmtpV.Basic
/-!
An independent reference for RFC 5321 §4.1.2 paths (with RFC 6531 UTF-8 off): a strict recogniser
that returns the mailbox a well-formed `<path>` denotes, and a classification of malformed
bracketed paths into named classes.  It shares nothing with the parser model.
-/
namespace SmtpV.Spec.Rfc5321
open SmtpV

def isAlnum (b : Byte) : Bool := (48 ≤ b.toNat && b.toNat ≤ 57) || (65 ≤ b.toNat && b.toNat ≤ 90) || (97 ≤ b.toNat && b.toNat ≤ 122)
def isAtext (b : Byte) : Bool := isAlnum b || "!#$%&'*+-/=?^_`{|}~".b.contains b

def splitOn (s : Bytes) (sep : Byte) : List Bytes :=
  let rec go : Bytes → Bytes → List Bytes → List Bytes
    | [], cur, acc => (cur.reverse :: acc).reverse
    | c :: t, cur, acc => if c == sep then go t [] (cur.reverse :: acc) else go t (c :: cur) acc
  go s [] []

/-- Dot-string = Atom *("." Atom) -/
def isDotString (s : Bytes) : Bool := !s.isEmpty && (splitOn s 46).all (fun a => !a.isEmpty && a.all isAtext)

/-- sub-domain = Let-dig [Ldh-str] -/
def isLabel (l : Bytes) : Bool :=
  !l.isEmpty && l.all (fun b => isAlnum b || b == 45) && isAlnum (l.headD 0) && isAlnum (l.getLast?.getD 0)

def isDomainName (d : Bytes) : Bool := !d.isEmpty && (splitOn d 46).all isLabel

/-- address-literal, loosely: `[` printable octets except `[`, `]`, `\` `]` -/
def isLiteral (d : Bytes) : Bool :=
  match d with
  | 91 :: t => t.getLast? == some 93 && t.length ≥ 2 && t.dropLast.all (fun b => 33 ≤ b.toNat && b.toNat ≤ 126 && b != 91 && b != 93 && b != 92)
  | _ => false

def isDomain (d : Bytes) : Bool := isDomainName d || isLiteral d

/-- Quoted-string content after the opening quote: `(unquoted content, rest after the closing quote)` -/
def quoted : Bytes → Bytes → Option (Bytes × Bytes)
  | [], _ => none
  | 34 :: t, acc => some (acc.reverse, t)
  | 92 :: c :: t, acc => if 32 ≤ c.toNat && c.toNat ≤ 126 then quoted t (c :: acc) else none
  | c :: t, acc => if (32 ≤ c.toNat && c.toNat ≤ 126) && c != 34 && c != 92 then quoted t (c :: acc) else none

/-- Mailbox = Local-part "@" ( Domain / address-literal ), up to `stop`; value with the local part de-quoted -/
def strictMailbox (s : Bytes) : Option Bytes :=
  match s with
  | 34 :: t =>
    match quoted t [] with
    | some (lp, 64 :: dom) => if isDomain dom then some (lp ++ [64] ++ dom) else none
    | _ => none
  | _ =>
    let lp := s.takeWhile (· != 64)
    match s.dropWhile (· != 64) with
    | 64 :: dom => if isDotString lp && isDomain dom then some (lp ++ [64] ++ dom) else none
    | _ => none

/-- index of the `>` that closes the path; a `>` inside a quoted local part does not count
    (`q`: inside the quoted string that opens the mailbox) -/
def closeIdxAux : Bytes → Nat → Bool → Option Nat
  | [], _, _ => none
  | 34 :: t, i, true => closeIdxAux t (i + 1) false
  | 92 :: _ :: t, i, true => closeIdxAux t (i + 2) true
  | 62 :: t, i, q => if q then closeIdxAux t (i + 1) q else some i
  | _ :: t, i, q => closeIdxAux t (i + 1) q

def closeIdx (t : Bytes) (_i : Nat) (_q : Bool) : Option Nat :=
  match t with
  | 34 :: r => (closeIdxAux r 1 true)
  | _ => closeIdxAux t 0 false

/-- `"<" [ A-d-l ":" ] Mailbox ">"` at the start of `s`: the mailbox it denotes and what follows -/
def strictPath (s : Bytes) : Option (Bytes × Bytes) :=
  match s with
  | 60 :: t =>
    match closeIdx t 0 false with
    | none => none
    | some i =>
      let inner := t.take i
      let rest := t.drop (i + 1)
      let mbox := match inner with
        | 64 :: _ =>
          -- source route: at-domains separated by commas, then ':'
          let route := inner.takeWhile (· != 58)
          let after := (inner.dropWhile (· != 58)).drop 1
          if inner.contains 58 && (splitOn route 44).all (fun ad => match ad with | 64 :: d => isDomain d | _ => false)
          then some after else none
        | _ => some inner
      match mbox with
      | none => none
      | some m => (strictMailbox m).map (fun v => (v, rest))
  | _ => none

inductive Class
  | valid (mbox rest : Bytes)
  | invalid (cls : String)
  | unspecified
deriving Repr, DecidableEq

/-- classification of the argument of RCPT TO: / MAIL FROM: (after trimming) -/
def classify (s : Bytes) : Class :=
  match strictPath s with
  | some (v, rest) => if rest.isEmpty || rest.headD 0 == 32 then .valid v rest else .unspecified
  | none =>
    match s with
    | 60 :: t =>
      match closeIdx t 0 false with
      | none => .invalid "unterminated"      -- '<' without a closing '>' (or an unterminated quoted string)
      | some i =>
        let inner := t.take i
        if inner.isEmpty then .unspecified   -- `<>`: the null reverse-path, judged elsewhere
        else if inner.headD 0 == 64 then .unspecified   -- malformed source routes: not judged
        else if inner.headD 0 == 34 then
          (match quoted (inner.drop 1) [] with
           | none => .invalid "bad-quoted-string"
           | some (_, 64 :: dom) => if isDomain dom then .unspecified else .invalid "domain"
           | some _ => .invalid "no-at")
        else
          let lp := inner.takeWhile (· != 64)
          let dom := (inner.dropWhile (· != 64)).drop 1
          if !inner.contains 64 then .invalid "no-at"
          else if lp.isEmpty then .invalid "empty-local-part"
          else if dom.isEmpty then .invalid "empty-domain"
          else if lp.any (fun b => b.toNat < 33 || b.toNat > 126) || dom.any (fun b => b.toNat < 33 || b.toNat > 126)
            then .invalid "octet-outside-grammar"
          else if !lp.all (fun b => isAtext b || b == 46) then .invalid "special-in-dot-string"
          else if !isDotString lp then .invalid "empty-atom"
          else if !isDomain dom then .invalid "domain"
          else .unspecified
    | _ => .unspecified                      -- no angle brackets: a documented leniency, not judged

end SmtpV.Spec.Rfc5321
