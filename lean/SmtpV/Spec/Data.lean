import SmtpV.Basic
/-!
Model-free specification of the DATA phase (RFC 5321 §4.5.2): what a terminated
octet stream is, and which octets the backend must receive for it.  Nothing here
mentions reader states.
-/
namespace SmtpV.Spec
open SmtpV

/-- `u` contains no CRLF. -/
def NoCRLF (u : Bytes) : Prop := ¬ [CR, LF] <:+: u

/-- A line: some octets without CRLF, then the CRLF that ends it.  (`t ++ [CR]` must not
    contain CRLF either: the terminating CRLF is the *first* one.)  Bare CR, bare LF,
    NUL and 8-bit octets are ordinary line content. -/
def IsLine (l : Bytes) : Prop := ∃ t, l = t ++ [CR, LF] ∧ NoCRLF (t ++ [CR])

/-- the end-of-data marker line -/
def marker : Bytes := [DOT, CR, LF]

/-- dot-unstuffing of one line: one leading '.' removed -/
def unstuff : Bytes → Bytes
  | c :: t => if c = DOT then t else c :: t
  | [] => []

/-- `s` is: body lines (none of them the marker), the marker line, then `rest`; `body` is the
    lines with one leading dot removed.  This is "the stream up to its first `CRLF.CRLF`
    (or a leading `.CRLF`)" of the property's statement. -/
def Terminated (s body rest : Bytes) : Prop :=
  ∃ ls : List Bytes, s = ls.flatten ++ marker ++ rest ∧
    (∀ l ∈ ls, IsLine l ∧ l ≠ marker) ∧ body = (ls.map unstuff).flatten

/-! ### an executable recogniser for `Terminated` (used to judge implementation output) -/

/-- split off the first CRLF-terminated line: `(line including CRLF, rest)` -/
def takeLine : Bytes → Option (Bytes × Bytes)
  | [] => none
  | [_] => none
  | a :: b :: t =>
    if a = CR ∧ b = LF then some ([CR, LF], t)
    else match takeLine (b :: t) with
      | some (l, r) => some (a :: l, r)
      | none => none

/-- `scan fuel s = some (body, rest)` iff `s` is terminated (for `fuel > s.length`). -/
def scan : Nat → Bytes → Option (Bytes × Bytes)
  | 0, _ => none
  | fuel + 1, s =>
    match takeLine s with
    | none => none
    | some (l, r) =>
      if l = marker then some ([], r)
      else match scan fuel r with
        | some (body, rest) => some (unstuff l ++ body, rest)
        | none => none

def terminated? (s : Bytes) : Option (Bytes × Bytes) := scan (s.length + 1) s

end SmtpV.Spec
