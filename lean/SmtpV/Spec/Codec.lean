import SmtpV.Model.Text
import SmtpV.Spec.Events
/-!
Specifications of the codec round trips (C14) and of the error round trip (C17), as executable
judges of observations.  `Text` is only used for Go's notion of runes (UTF-8 decoding).
-/
namespace SmtpV.Spec.Codec
open SmtpV SmtpV.Spec SmtpV.Text

def validUtf8 (s : Bytes) : Bool := (runes s).all (fun p => !(p.1 == 0xFFFD && p.2 == 1))

/-- domain of the xtext law: all of 7-bit ASCII -/
def inDomainX (s : Bytes) : Bool := s.all (fun b => b.toNat < 128)

/-- domain of the utf-8-addr-xtext / unitext laws: printable ASCII and non-ASCII scalar values -/
def inDomainU (s : Bytes) : Bool :=
  validUtf8 s && (runes s).all (fun p => (0x20 ≤ p.1 && p.1 ≤ 0x7E) || p.1 ≥ 0x80)

/-- C14 codec law on an observation `decode (encode s)` -/
def check14 (fn : String) (s : Bytes) (result : Option Bytes) : List String :=
  let dom := if fn == "x" then inDomainX s else inDomainU s
  if dom && result != some s then ["C14 decode(encode(s)) differs from s inside the codec's domain (" ++ fn ++ ")"] else []

/-! ### C17 -/

structure SErrV where
  code : Nat
  enh : Enh
  msg : Bytes
deriving DecidableEq, Repr, Inhabited

/-- does the text look like it starts with an enhanced code token `int.int.int ` ? -/
def looksLikeEnh (msg : Bytes) : Bool :=
  let tok := msg.takeWhile (· != 32)
  let isInt (p : Bytes) : Bool :=
    let d := match p with | 45 :: t => t | 43 :: t => t | _ => p
    !d.isEmpty && d.all isDigit
  tok.length < msg.length && (match splitByte tok 46 with | [a, b, c] => isInt a && isInt b && isInt c | _ => false)

def msgInDomain (msg : Bytes) : Bool :=
  validUtf8 msg && msg.all (fun b => b == 10 || b == 9 || (32 ≤ b.toNat && b.toNat != 127)) &&
  (splitByte msg 10).length ≤ 3

/-- what the client must report for a backend result at a call site; `none` = outside the judged domain -/
def expected17 (site : String) (res : BRes) : Option SErrV :=
  match res with
  | .se code enh msg =>
    if !(400 ≤ code && code < 600) || !msgInDomain msg then none
    else if enh == ⟨-1, -1, -1⟩ then
      -- no enhanced code on the wire: indistinguishable from a reply with one if the text looks like one
      if (splitByte msg 10).any looksLikeEnh then none else some { code := code, enh := ⟨0, 0, 0⟩, msg := msg }
    else if enh == ⟨0, 0, 0⟩ then some { code := code, enh := ⟨(code / 100 : Nat), 0, 0⟩, msg := msg }
    else if enh.a < 0 || enh.b < 0 || enh.c < 0 then none
    else some { code := code, enh := enh, msg := msg }
  | .er msg =>
    if !msgInDomain msg then none
    else if site == "env" then some { code := 451, enh := ⟨4, 0, 0⟩, msg := msg }
    else some { code := 554, enh := ⟨5, 0, 0⟩, msg := "Error: transaction failed: ".b ++ msg }
  | _ => none

def check17 (site : String) (res : BRes) (got : Option SErrV) : List String :=
  match expected17 site res with
  | none => []
  | some e => if got == some e then [] else ["C17 the client does not recover the backend's error (code, enhanced code or text differ)"]

end SmtpV.Spec.Codec
