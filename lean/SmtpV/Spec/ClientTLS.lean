import SmtpV.Model.Text
/-!
Judge for the client half of C10 (STARTTLS as the client conducts it), on observations of the real
client: what it wrote on the raw socket before TLS, whether a handshake completed, what it wrote
inside TLS, and what its API calls returned.
-/
namespace SmtpV.Spec.ClientTLS
open SmtpV SmtpV.Text

def linesOf (bs : Bytes) : List Bytes := (splitByte bs 10).filter (fun l => !l.isEmpty)

def verbOf (l : Bytes) : Bytes := toUpper ((l.takeWhile (fun b => b != 32 && b != 13)))

/-- commands that may travel in plaintext when the caller asked for STARTTLS -/
def plainAllowed (v : Bytes) : Bool :=
  v == "EHLO".b || v == "HELO".b || v == "LHLO".b || v == "STARTTLS".b || v == "QUIT".b || v == "NOOP".b || v == "RSET".b

/-- capability keywords of an EHLO reply chunk (`250-greeting`, then one keyword line each) -/
def ehloKeys (chunk : Bytes) : Option (List Bytes) :=
  let ls := linesOf chunk |>.map (fun l => if l.getLast? == some 13 then l.dropLast else l)
  if ls.isEmpty || !ls.all (fun l => "250".b.isPrefixOf l) then none
  else some ((ls.drop 1).map fun l => toUpper ((l.drop 4).takeWhile (· != 32)))

/-- "the client renegotiates EHLO after the upgrade instead of trusting plaintext capabilities", observed on
    `Extension(name)` calls made inside an established TLS session whose EHLO was answered with a plain 250 reply:
    the answer is what that reply says — not what was said in plaintext, before or behind the 220 -/
def checkExt (tls : String) (innerEhlo : Bytes) (exts : List (Bytes × String)) : List String :=
  if tls != "ok" then [] else
  match ehloKeys innerEhlo with
  | none =>
    -- the EHLO sent inside TLS was refused (the client falls back to HELO): no capability at all has been negotiated
    -- inside TLS, whatever the plaintext EHLO reply offered
    if innerEhlo.head? == some 53 && exts.any (fun (_, r) => r.startsWith "true")
    then ["C10 a capability learned in plaintext is still reported after the EHLO inside TLS was refused"] else []
  | some keys =>
    if exts.all (fun (n, r) => (r.startsWith "true") == keys.contains (toUpper n) || !(r.startsWith "true" || r.startsWith "false")) then []
    else ["C10 a capability query inside TLS was not answered from the EHLO reply received inside TLS"]

/-- the same rule seen on the wire: when the EHLO sent inside TLS was refused, no extension has been negotiated inside
    TLS, so MAIL and RCPT lines written there carry no parameter (the plaintext capability list is not to be trusted) -/
def checkNoParams (tls : String) (innerEhlo innerWritten : Bytes) : List String :=
  if tls != "ok" || innerEhlo.head? != some 53 then [] else
  if (linesOf innerWritten).any (fun l =>
      (verbOf l == "MAIL".b || verbOf l == "RCPT".b) &&
      (match (l.dropWhile (· != 62)).drop 1 with      -- what follows '>'
       | [] => false
       | rest => rest.any (fun b => b != 13 && b != 10 && b != 32)))
  then ["C10 a parameter of an extension offered only in plaintext was sent inside TLS after the EHLO there was refused"] else []

/-- `results`: the constructor's / SendMail's result first, then one per later call; `envelopeCall i` says whether
    the i-th later call carries envelope, credentials or content (MAIL, RCPT, DATA, AUTH, VRFY) -/
def check (plainWritten : Bytes) (tls : String) (innerWritten : Bytes) (ctor : String) (later : List (Bool × String))
    (sendmail : Bool) : List String :=
  (if (linesOf plainWritten).all (fun l => plainAllowed (verbOf l)) then []
   else ["C10 the client sent envelope, credentials or content on the raw socket although STARTTLS was requested"]) ++
  (if tls == "ok" then
     match (linesOf innerWritten).head? with
     | some l => if verbOf l == "EHLO".b || verbOf l == "LHLO".b then []
                 else ["C10 the client did not renegotiate EHLO after the upgrade"]
     | none => []
   else
     -- no TLS session: nothing the caller asked for can have succeeded
     (if sendmail && ctor == "nil" then ["C10 SendMail reports success although no TLS session was established"] else []) ++
     (if later.any (fun p => p.1 && p.2 == "nil")
      then ["C10 an envelope/credential call succeeded although no TLS session was established"] else []) ++
     (if !innerWritten.isEmpty then ["C10 inconsistent observation: inner octets without a TLS session"] else []))

end SmtpV.Spec.ClientTLS
