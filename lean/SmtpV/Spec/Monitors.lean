import SmtpV.Spec.Events
import SmtpV.Spec.ReplySyntax
/-!
Executable judges over the observable trace of one connection (`List Ev`).  Each returns the
list of clauses the trace violates (`[]` = accepted).  They never look at the model's state;
the same functions are (1) proved to accept every trace the model can produce and (2) run on
the traces recorded from the real server.
-/
namespace SmtpV.Spec.Mon
open SmtpV SmtpV.Spec SmtpV.Spec.ReplySyntax

/-- run a step function with failure reasons over a trace; also a final check -/
def runMon {σ : Type} (step : σ → Ev → Except String σ) (fin : σ → List String) : σ → List Ev → List String
  | m, [] => fin m
  | m, e :: t =>
    match step m e with
    | .ok m' => runMon step fin m' t
    | .error r => [r]

def evId : Ev → Option Nat
  | .ns id _ _ _ | .mail id _ _ _ | .rcpt id _ _ _ | .reset id | .logout id | .authMech id _ _ | .dataBegin id _ => some id
  | _ => none

def containsSub (s sub : Bytes) : Bool :=
  let rec go : Bytes → Nat → Bool
    | _, 0 => false
    | t, fuel + 1 => sub.isPrefixOf t || (match t with | [] => false | _ :: r => go r fuel)
  go s (s.length + 1)

def mentions (e : Ev) (sub : Bytes) : Bool :=
  match e with
  | .ns _ h _ _ => containsSub h sub
  | .mail _ a _ _ | .rcpt _ a _ _ => containsSub a sub
  | .sasl (some resp) _ _ _ => containsSub resp sub      -- what the SASL mechanism was handed
  | .authMech _ m _ => containsSub m sub
  | _ => false

/-! ### C08 — each session logged out exactly once; nothing runs after the connection ends -/

structure M8 where
  live : Option Nat := none
  nextId : Nat := 0
  closed : Bool := false
deriving Repr, DecidableEq, Inhabited

def step8 (m : M8) (e : Ev) : Except String M8 :=
  match e with
  | .w _ | .cmd _ | .tlsStart _ =>
    if m.closed then .error "C08 activity (write/command) after the connection was closed" else .ok m
  | .panicLog => .ok m
  | .close => if m.closed then .error "C08 closed twice" else
      if m.live.isSome then .error "C08 connection closed while a session is still logged in" else .ok { m with closed := true }
  | .ns id _ _ r =>
    if m.closed then .error "C08 NewSession after the connection ended"
    else if m.live.isSome then .error "C08 NewSession while a session is live"
    else if id != m.nextId then .error "C08 session identities out of order"
    else .ok { m with nextId := id + 1, live := if r == .ok then some id else none }
  | .logout id =>
    if m.live != some id then .error "C08 Logout on a session that is not live (second Logout, or never created)"
    else .ok { m with live := none }
  | .sasl _ _ _ _ =>
    if m.live.isNone then .error "C08 SASL step without a live session" else .ok m
  | .mail id _ _ _ | .rcpt id _ _ _ | .reset id | .authMech id _ _ | .dataBegin id _ =>
    if m.live != some id then .error "C08 callback on a session that is not live (after Logout)" else .ok m

def fin8 (m : M8) : List String :=
  (if m.live.isSome then ["C08 a session was never logged out"] else []) ++
  (if !m.closed then ["C08 trace ends without the connection being closed"] else [])

def check8 (evs : List Ev) : List String := runMon step8 fin8 {} evs

/-! ### C03 — callbacks follow transaction order; envelopes never leak -/

structure M3 where
  sess : Option Nat := none
  mailOk : Bool := false
  nrcpt : Nat := 0
  transfer : Bool := false      -- a Data/LMTPData call has begun and the transaction has not been reset
deriving Repr, DecidableEq, Inhabited

def step3 (cfg : Cfg) (m : M3) (e : Ev) : Except String M3 :=
  match e with
  | .ns id _ _ r =>
    if m.sess.isSome then .error "C03 NewSession while a session exists"
    else .ok (if r == .ok then { sess := some id } else m)
  | .mail id _ _ r =>
    if m.sess != some id then .error "C03 Mail without a session created by a greeting"
    else if m.transfer then .error "C03 Mail while the previous transaction has not been reset"
    else .ok (if r == .ok then { m with mailOk := true } else m)
  | .rcpt id _ _ r =>
    if m.sess != some id then .error "C03 Rcpt without a session"
    else if !m.mailOk then .error "C03 Rcpt without an accepted Mail of the current transaction"
    else if m.transfer then .error "C03 Rcpt while the previous transaction has not been reset"
    else if cfg.maxRcpt > 0 && m.nrcpt ≥ cfg.maxRcpt then .error "C03 Rcpt beyond the configured maximum"
    else .ok (if r == .ok then { m with nrcpt := m.nrcpt + 1 } else m)
  | .dataBegin id _ =>
    if m.sess != some id then .error "C03 Data without a session"
    else if !m.mailOk then .error "C03 Data without an accepted Mail"
    else if m.nrcpt == 0 then .error "C03 Data without an accepted Rcpt of the current transaction"
    else if m.transfer then .error "C03 second Data in one transaction"
    else .ok { m with transfer := true }
  | .reset id =>
    if m.sess != some id then .error "C03 Reset on a session that is not current"
    else .ok { m with mailOk := false, nrcpt := 0, transfer := false }
  | .logout id =>
    if m.sess != some id then .error "C03 Logout on a session that is not current" else .ok {}
  | _ => .ok m

def check3 (cfg : Cfg) (evs : List Ev) : List String := runMon (step3 cfg) (fun _ => []) {} evs

/-! ### C09 — AUTH unreachable on insecure connections, succeeds at most once -/

structure M9 where
  live : Bool := false
  tls : Bool := false           -- TLS state the live session was created under
  authed : Bool := false
deriving Repr, DecidableEq, Inhabited

/-- is this an EHLO/LHLO capability reply?  (250, first line "Hello …", more than one line or not, no enhanced code) -/
def isEhloReply (r : Reply) : Bool :=
  r.code == 250 && (match r.lines.head? with | some l => "Hello ".b.isPrefixOf l | none => false)

def capLines (r : Reply) : List Bytes := r.lines.drop 1

def capName (l : Bytes) : Bytes := l.takeWhile (· != 32)

def step9 (cfg : Cfg) (m : M9) (e : Ev) : Except String M9 :=
  match e with
  | .ns _ _ tls r => .ok (if r == .ok then { live := true, tls := tls, authed := false } else m)
  | .logout _ => .ok {}
  | .authMech _ _ _ =>
    if !m.live then .error "C09 Auth callback without a session"
    else if !(m.tls || cfg.insecureAuth) then .error "C09 mechanism consulted on an insecure connection"
    else if m.authed then .error "C09 Auth callback after a successful authentication"
    else .ok m
  | .sasl _ _ done r =>
    if !(m.tls || cfg.insecureAuth) then .error "C09 SASL mechanism received octets on an insecure connection"
    else if m.authed then .error "C09 SASL step after a successful authentication"
    else .ok (if done && r == .ok then { m with authed := true } else m)
  | .w bs =>
    match parse bs with
    | none => .ok m
    | some rs =>
      if rs.any (fun r => isEhloReply r && (capLines r).any (fun l => capName l == "AUTH".b)) &&
          !(m.tls || cfg.insecureAuth) then .error "C09 AUTH advertised on an insecure connection"
      else if rs.any (fun r => r.code == 235) && !m.authed then .error "C09 235 without a completed exchange"
      else if rs.any (fun r => r.code == 334) && m.authed then
        .error "C09 a challenge (334) was sent after the mechanism had reported success: the exchange went on past its end"
      else .ok m
  | _ => .ok m

def check9 (cfg : Cfg) (evs : List Ev) : List String := runMon (step9 cfg) (fun _ => []) {} evs

/-! ### C12 — EHLO advertises exactly what the configuration enables -/

def natToDec (n : Nat) : Bytes := (Nat.toDigits 10 n).map (fun c => UInt8.ofNat c.toNat)

/-- the capability table: keyword lines in the order the server prints them -/
def capsTable (cfg : Cfg) (tls : Bool) : List Bytes :=
  ["PIPELINING".b, "8BITMIME".b, "ENHANCEDSTATUSCODES".b, "CHUNKING".b] ++
  (if cfg.tlsAvail && !tls then ["STARTTLS".b] else []) ++
  (if (tls || cfg.insecureAuth) && cfg.authSess && !cfg.mechs.isEmpty then
     ["AUTH".b ++ cfg.mechs.flatMap (fun m => 32 :: m)] else []) ++
  (if cfg.utf8 then ["SMTPUTF8".b] else []) ++
  (if tls && cfg.reqtls then ["REQUIRETLS".b] else []) ++
  (if cfg.binmime then ["BINARYMIME".b] else []) ++
  (if cfg.dsn then ["DSN".b] else []) ++
  (if cfg.maxMsg > 0 then ["SIZE ".b ++ natToDec cfg.maxMsg] else ["SIZE".b]) ++
  (if cfg.maxRcpt > 0 then ["LIMITS RCPTMAX=".b ++ natToDec cfg.maxRcpt] else []) ++
  (if cfg.rrvs then ["RRVS".b] else [])

structure M12 where
  tls : Bool := false
deriving Repr, DecidableEq, Inhabited

def step12 (cfg : Cfg) (m : M12) (e : Ev) : Except String M12 :=
  match e with
  | .ns _ _ tls r => .ok (if r == .ok then { tls := tls } else m)
  | .w bs =>
    match parse bs with
    | none => .ok m
    | some rs =>
      if rs.any (fun r => isEhloReply r && r.lines.length > 1 && capLines r != capsTable cfg m.tls) then
        .error "C12 capability list differs from what the configuration enables"
      else .ok m
  | _ => .ok m

def check12 (cfg : Cfg) (evs : List Ev) : List String := runMon (step12 cfg) (fun _ => []) {} evs

/-- C12, second half: in a lock-step probe conversation (one command per line, no message data) every
    parameter of a disabled extension is refused with 504 and every parameter/command of an enabled
    one is not refused as unsupported. `cmds` are the input lines, `replies` the replies after the greeting. -/
def probeExpect (cfg : Cfg) (tls : Bool) (line : Bytes) (r : Reply) : List String :=
  let has (k : String) := containsSub line k.b
  let off (b : Bool) (what : String) : List String :=
    if !b && r.code != 504 then ["C12 parameter of the disabled extension " ++ what ++ " not refused with 504"]
    else if b && (r.code == 504 || r.code == 502 || r.code == 500) then ["C12 " ++ what ++ " is advertised but refused as unsupported"]
    else []
  if has "SMTPUTF8" then off cfg.utf8 "SMTPUTF8"
  else if has "REQUIRETLS" then off (cfg.reqtls && tls) "REQUIRETLS"   -- offered, and honoured, only under TLS (RFC 8689)
  else if has "BINARYMIME" then off cfg.binmime "BINARYMIME"
  else if has "RET=" || has "ENVID=" || has "NOTIFY=" || has "ORCPT=" then off cfg.dsn "DSN"
  else if has "RRVS=" then off cfg.rrvs "RRVS"
  else if has "STARTTLS" then
    (if (r.code == 220) != (cfg.tlsAvail && !tls) then ["C12 STARTTLS accepted/refused inconsistently with the configuration"] else [])
  else if has "AUTH PLAIN" then
    (if (r.code == 235) != ((tls || cfg.insecureAuth) && cfg.authSess) then ["C12 AUTH accepted/refused inconsistently with the configuration"] else [])
  else []

/-! ### C10 — STARTTLS discards plaintext state; offered only when available and not active -/

structure M10 where
  tls : Bool := false           -- TLS state of the most recent session
  seenTls : Bool := false
  greeted : Bool := false       -- the greeting (the first reply) has been written
  upgraded : Bool := false      -- a later 220 has been written: STARTTLS was accepted, what follows travels inside TLS
  dbInTls : Bool := false       -- a delivery has been started since the upgrade
deriving Repr, DecidableEq, Inhabited

def step10 (cfg : Cfg) (implicit : Bool) (m : M10) (e : Ev) : Except String M10 :=
  match e with
  | .ns _ helo tls r =>
    if m.seenTls && !tls then .error "C10 a session created after the upgrade does not see TLS"
    else if implicit && !tls then .error "C10 implicit TLS connection reported as plaintext"
    else if tls && !implicit && !m.upgraded then
      .error "C09/C10 a session is told that TLS is active although no handshake has succeeded on this connection"
    else if !tls && !cfg.tlsAvail && false then .ok m
    else if m.upgraded && containsSub helo "inj".b then .error "C10 injected plaintext executed (greeting)"
    else .ok (if r == .ok then { m with tls := tls, seenTls := m.seenTls || tls } else { m with seenTls := m.seenTls || tls })
  | .mail _ a _ _ | .rcpt _ a _ _ =>
    -- (when STARTTLS was not accepted — refused, or swallowed as a SASL response — what follows it is ordinary plaintext)
    if m.upgraded && containsSub a "inj".b then .error "C10 plaintext pipelined behind STARTTLS was executed inside TLS" else .ok m
  | .w bs =>
    match parse bs with
    | none => .ok m
    | some rs =>
      let bad := rs.any fun r => isEhloReply r && r.lines.length > 1 &&
        (((capLines r).contains "STARTTLS".b) != (cfg.tlsAvail && !m.tls) ||
         ((capLines r).contains "REQUIRETLS".b) != (m.tls && cfg.reqtls))
      if bad then .error "C10 STARTTLS/REQUIRETLS advertised inconsistently with the TLS state"
      -- "… not allowed during message transfer" inside TLS although no transfer has been opened inside TLS
      else if m.upgraded && !m.dbInTls && rs.any (fun r => r.code == 502 && r.lines.any (fun l => containsSub l "during message transfer".b)) then
        .error "C10 a chunked transfer opened in plaintext survived the upgrade (a command inside TLS was refused because of it)"
      else
        let later := if m.greeted then rs else rs.drop 1
        -- a 220 after the greeting: STARTTLS accepted; "550 … Handshake error" right behind it: the upgrade did not happen
        let up := later.foldl (fun u r =>
          if r.code == 220 then true
          else if r.code == 550 && r.lines.any (fun l => containsSub l "Handshake error".b) then false
          else u) m.upgraded
        .ok { m with greeted := m.greeted || !rs.isEmpty, upgraded := up }
  | .dataBegin _ _ => .ok (if m.upgraded then { m with dbInTls := true } else m)
  | _ => .ok m

def check10 (cfg : Cfg) (implicit : Bool) (evs : List Ev) : List String :=
  runMon (step10 cfg implicit) (fun _ => []) {} evs

/-! ### C04 — well-formed replies with an enhanced code of the reply's class -/

def replyProblems (first : Bool) (r : Reply) : List String :=
  (if r.lines.all textOk then [] else ["C04 reply text contains an octet that is not allowed in a reply line"]) ++
  (if r.code < 200 || r.code > 599 then ["C04 reply code out of range"] else []) ++
  (if first || r.code / 100 == 3 || isEhloReply r then []
   else
     if r.lines.all (fun l => match enhOf l with | some (c, _, _) => c == r.code / 100 | none => false) then []
     else ["C04 reply lacks an enhanced status code of its class"])

structure M4 where
  first : Bool := true          -- the next reply is the greeting
  lastCode : Nat := 0           -- code of the most recent reply
  pendingData : Option Nat := none     -- a synchronous Data call has begun: index of its record
  pendingAsync : Option Nat := none    -- a chunked delivery has been started: index of its record
deriving Repr, DecidableEq, Inhabited

/-- expected final reply code for a delivery result -/
def verdictOk (ret : BRes) (code : Nat) : Bool :=
  match ret with
  | .ok => code / 100 == 2
  | .se c _ _ => code == c
  | .er _ => code == 554
  | .panic => code == 421

def step4 (lmtp : Bool) (drecs : List DRec) (m : M4) (e : Ev) : Except String M4 :=
  match e with
  | .w bs =>
    match parse bs with
    | none => .error "C04 the octets written are not a sequence of syntactically valid replies"
    | some rs =>
      let probs := (rs.zipIdx.map fun (r, i) => replyProblems (m.first && i == 0) r).flatten
      match probs with
      | p :: _ => .error p
      | [] =>
        let lc := match rs.getLast? with | some r => r.code | none => m.lastCode
        -- the reply that follows a synchronous (non-LMTP) Data call reports that call's outcome
        match m.pendingData, rs.head? with
        | some k, some r =>
          match drecs[k]? with
          | some d =>
            if !lmtp && d.finished && !verdictOk d.ret r.code then
              .error "C04 the final reply for a message does not report that message's own outcome"
            else .ok { first := false, lastCode := lc, pendingData := none }
          | none => .ok { first := false, lastCode := lc, pendingData := none }
        | _, _ => .ok { m with first := m.first && rs.isEmpty, lastCode := lc }
  -- a Data call that begins right after the 354 reply is the synchronous DATA path
  | .dataBegin _ k => .ok (if m.lastCode == 354 then { m with pendingData := some k } else { m with pendingAsync := some k })
  -- the transaction ends: if the chunked delivery saw the end of the message (LAST arrived), the reply
  -- just before is the final reply for that message and must report that delivery's own result
  | .reset _ | .logout _ =>
    match m.pendingAsync with
    | some k =>
      match drecs[k]? with
      | some d =>
        if !lmtp && d.finished && d.rdEnd == .eof && !verdictOk d.ret m.lastCode then
          .error "C04 the final reply for a chunked message does not report that message's own outcome"
        else .ok { m with pendingAsync := none }
      | none => .ok { m with pendingAsync := none }
    | none => .ok m
  | _ => .ok m

def check4 (lmtp : Bool) (drecs : List DRec) (evs : List Ev) : List String :=
  runMon (step4 lmtp drecs) (fun _ => []) {} evs

/-! ### C19 — hostile input: no panic, long lines refused, short lines never refused for their length -/

/-- the lines of a command-only conversation, each with its terminating LF -/
def linesLF : Bytes → Bytes → List Bytes → List Bytes
  | [], cur, acc => (if cur.isEmpty then acc else cur.reverse :: acc).reverse
  | c :: t, cur, acc => if c == 10 then linesLF t [] ((c :: cur).reverse :: acc) else linesLF t (c :: cur) acc

def hasReply (evs : List Ev) (p : Reply → Bool) : Bool :=
  evs.any fun e => match e with
    | .w bs => (match parse bs with | some rs => rs.any p | none => false)
    | _ => false

def isTooLong (r : Reply) : Bool :=
  r.code == 500 && (match r.lines.head? with | some l => enhOf l == some (5, 4, 0) | none => false)

/-- `cmdOnly`: the generator vouches that the input consists of command lines only (no message data) -/
def check19 (maxLine : Nat) (cmdOnly : Bool) (input : Bytes) (evs : List Ev) : List String :=
  (if evs.any (fun e => match e with | .panicLog => true | _ => false) then ["C19 a panic was recovered while serving"] else []) ++
  (if evs.any (fun e => mentions e "long".b) then ["C19 an over-long line (or a prefix of it) reached the backend"] else []) ++
  (if cmdOnly && maxLine > 0 && (linesLF input [] []).all (fun l => l.length ≤ maxLine) && hasReply evs isTooLong
   then ["C19 a line within the maximum was refused for its length"] else []) ++
  (if cmdOnly && maxLine > 0 && (linesLF input [] []).any (fun l => l.length ≥ maxLine + 2) &&
      !hasReply evs isTooLong && !hasReply evs (fun r => r.code == 221 || r.code == 421) &&
      !hasReply evs (fun r => r.code == 500 && (match r.lines.head? with | some l => enhOf l == some (5, 5, 1) | none => false))
   then ["C19 an over-long line was not answered 500 and the connection not closed"] else [])

/-! ### C13 — LMTP: one status per accepted recipient, in order, correctly attributed -/

def countOf (a : Bytes) (l : List Bytes) : Nat := (l.filter (· == a)).length

/-- The specification of attribution: the i-th recipient, being the j-th occurrence of its address,
    gets the j-th status the backend set for that address; where it set none, the backend's return
    value.  A call for an unknown address or one call too many is outside the backend's contract
    (the server treats it as a backend panic: everybody without a status gets 421). -/
def inContract (rcpts : List Bytes) (calls : List (Bytes × BRes)) : Bool :=
  calls.all (fun c => rcpts.contains c.1) &&
  (calls.map (·.1)).eraseDups.all (fun a => countOf a (calls.map (·.1)) ≤ countOf a rcpts)

def expectedStatuses (rcpts : List Bytes) (calls : List (Bytes × BRes)) (ret : BRes) : List (Bytes × BRes) :=
  let rec go : List Bytes → List Bytes → List (Bytes × BRes)
    | [], _ => []
    | a :: rest, seen =>
      let j := countOf a seen
      let mine := (calls.filter (·.1 == a)).map (·.2)
      (a, (mine[j]?).getD ret) :: go rest (seen ++ [a])
  go rcpts []

structure M13 where
  rcpts : List Bytes := []            -- recipients accepted in the current transaction
  lastCode : Nat := 0
  pending : Option (Nat × Bool) := none     -- delivery k has begun; synchronous?
  replies : List Reply := []          -- replies seen since it began
deriving Repr, Inhabited

def statusReplyOk (exp : Bytes × BRes) (r : Reply) : Bool :=
  verdictOk exp.2 r.code &&
  (match r.lines.head? with
   | some l =>
     let t := match enhOf l with
       | some _ => (l.dropWhile (· != 32)).drop 1
       | none => l
     ("<".b ++ exp.1 ++ "> ".b).isPrefixOf t
   | none => false)

def finish13 (lmtpSess : Bool) (decs : List DataDec) (drecs : List DRec) (m : M13) : Except String M13 :=
  match m.pending with
  | none => .ok m
  | some (k, sync) =>
    match drecs[k]?, decs[k]? with
    | some d, some dec =>
      let reached := sync || d.rdEnd == .eof
      let calls := if lmtpSess then dec.statuses else []
      -- a plain backend that panics never gets as far as per-recipient replies: the connection is given up (421)
      if !reached || m.rcpts.isEmpty || (!lmtpSess && d.ret == .panic) then .ok { m with pending := none, replies := [] }
      else if !inContract m.rcpts calls then .ok { m with pending := none, replies := [] }
      else
        let exp := expectedStatuses m.rcpts calls d.ret
        let n := m.rcpts.length
        let got := m.replies.drop (m.replies.length - n)
        if m.replies.length < n then .error "C13 fewer final replies than accepted recipients"
        else if (exp.zip got).all (fun p => statusReplyOk p.1 p.2) then .ok { m with pending := none, replies := [] }
        else .error "C13 a recipient's reply does not carry that recipient's own status, in RCPT order"
    | _, _ => .ok { m with pending := none, replies := [] }

def step13 (lmtpSess : Bool) (decs : List DataDec) (drecs : List DRec) (m : M13) (e : Ev) : Except String M13 :=
  match e with
  | .rcpt _ a _ r => .ok (if r == .ok then { m with rcpts := m.rcpts ++ [a] } else m)
  | .reset _ | .logout _ =>
    match finish13 lmtpSess decs drecs m with
    | .ok m' => .ok { m' with rcpts := [] }
    | .error r => .error r
  | .dataBegin _ k => .ok { m with pending := some (k, m.lastCode == 354), replies := [] }
  | .w bs =>
    match parse bs with
    | none => .ok m
    | some rs =>
      let lc := match rs.getLast? with | some r => r.code | none => m.lastCode
      .ok { m with lastCode := lc, replies := if m.pending.isSome then m.replies ++ rs else [] }
  | _ => .ok m

/-- `TAG=lastfail`: the generator vouches that the conversation is one LMTP transaction whose message ends with a `BDAT … LAST`
    that cannot be delivered (the backend has given up, or gives up inside that chunk), followed by marker commands.  The
    response to BDAT LAST — what the server writes between the start of the delivery and the execution of the first marker —
    is exactly one reply per accepted recipient, in RCPT order, each naming its recipient (RFC 2033 4.2), plus — before them —
    the `250 Continue` replies of the earlier chunks, if any. -/
def checkLastFail (evs : List Ev) : List String :=
  let isMarker (e : Ev) : Bool := match e with | .mail _ a _ _ => "mk".b.isPrefixOf a | _ => false
  if !evs.any isMarker then [] else     -- the connection was given up (a panic): nothing to count
  let rcpts := evs.filterMap fun e => match e with | .rcpt _ a _ r => if r == .ok then some a else none | _ => none
  let after := (evs.dropWhile (fun e => match e with | .dataBegin .. => false | _ => true)).drop 1
  let seg := after.takeWhile (fun e => !isMarker e)
  let replies := ((seg.filterMap fun e => match e with | .w bs => parse bs | _ => none).flatten).filter
    (fun r => !(r.code == 250 && r.lines == ["2.0.0 Continue".b]))
  if replies.length != rcpts.length then ["C13 the response to a BDAT LAST that could not be delivered is not one reply per accepted recipient"]
  else if (rcpts.zip replies).all (fun p => match p.2.lines.head? with
      | some l => containsSub l ("<".b ++ p.1 ++ "> ".b)
      | none => false) then []
  else ["C13 a reply to a failed BDAT LAST does not name its recipient, in RCPT order"]

def check13 (lmtp lmtpSess : Bool) (decs : List DataDec) (drecs : List DRec) (evs : List Ev) : List String :=
  if !lmtp then [] else runMon (step13 lmtpSess decs drecs) (fun _ => []) {} evs

/-! ### bait and markers (C02, C05, C10): message octets are never executed; what follows a message is -/

/-- markers `mk0@x`, `mk1@x`, … present in the client's octets -/
def markerCount (input : Bytes) : Nat :=
  let rec go : Nat → Nat → Nat
    | 0, i => i
    | fuel + 1, i => if containsSub input ("mk".b ++ natToDec i ++ "@x".b) then go fuel (i + 1) else i
  go 16 0

def checkBait (input : Bytes) (evs : List Ev) : List String :=
  (if evs.any (fun e => mentions e "bait".b) then ["C02/C05 octets of a message were executed as a command"] else []) ++
  (let n := markerCount input
   let seen := evs.filterMap fun e => match e with
     | .mail _ a _ _ => if "mk".b.isPrefixOf a then some a else none
     | _ => none
   let want := (List.range n).map fun i => "mk".b ++ natToDec i ++ "@x".b
   if n > 0 && seen != want && !evs.any (fun e => match e with | .panicLog => true | _ => false)
   then ["C02/C05 the commands that follow the message were not executed exactly once, in order"] else [])

/-- C02 "the next command executed is exactly the line that follows the end marker", observed on replies:
    when the first marker command directly follows the end-of-data line in the client's octets, then between
    the start of that DATA delivery and the execution of the marker command the server writes exactly the
    final reply(ies) of the message — one, or one per accepted recipient in LMTP — and nothing else
    (anything more is the reply to something that was executed in between). -/
def checkResume (lmtp : Bool) (input : Bytes) (evs : List Ev) : List String :=
  if !containsSub input ("\r\n.\r\nMAIL FROM:<mk0@x>\r\n".b) then [] else
  if evs.any (fun e => match e with | .panicLog => true | _ => false) then [] else
  match evs.findIdx? (fun e => match e with | .mail _ a _ _ => a == "mk0@x".b | _ => false) with
  | none => []
  | some j =>
    let before := evs.take j
    -- the last delivery that began before the marker command ran
    match (before.zipIdx.filter (fun p => match p.1 with | .dataBegin .. => true | _ => false)).getLast? with
    | none => []
    | some (_, i) =>
      let pre := before.take i
      let preReplies := (pre.filterMap fun e => match e with | .w bs => ReplySyntax.parse bs | _ => none).flatten
      if (preReplies.getLast?.map (·.code)) != some 354 then [] else       -- not a DATA delivery
      let nrcpt := ((pre.reverse.takeWhile (fun e => match e with | .mail .. => false | _ => true)).filter
        (fun e => match e with | .rcpt _ _ _ .ok => true | _ => false)).length
      let want := if lmtp then nrcpt else 1
      let got := ((before.drop i).filterMap fun e => match e with | .w bs => ReplySyntax.parse bs | _ => none).flatten.length
      if got != want then ["C02 something between the end-of-data line and the command that follows it was executed (extra or missing replies)"]
      else []

/-- expected octets of delivery records (`k`, octets) handed down by the case generator -/
def checkExpect (exp : List (Nat × Bytes)) (drecs : List DRec) : List String :=
  if exp.all (fun (k, o) => match drecs[k]? with | some d => d.octets == o | none => false) then []
  else ["C05/C01 the backend did not read exactly the expected octets"]

/-! ### C07 (conversation level): no positive final reply for a message whose reader did not reach EOF -/

def check7 (lmtp : Bool) (drecs : List DRec) (evs : List Ev) : List String :=
  -- the final reply for a message reports that message's own outcome (so a backend that propagates the
  -- reader's failure — the documented contract — never sees its truncated message answered positively)
  (check4 lmtp drecs evs).filter (fun r => "C04 the final".isPrefixOf r)

end SmtpV.Spec.Mon
