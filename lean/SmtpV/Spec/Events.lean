import SmtpV.Basic
/-!
The vocabulary of observable traces, shared by the specifications (monitors) and the model:
backend results, options handed to the backend, events of a connection, delivery records.
Pure data — no behaviour is defined here.
-/
namespace SmtpV.Spec
open SmtpV

structure Enh where
  a : Int
  b : Int
  c : Int
deriving DecidableEq, Repr, Inhabited

def noEnh : Enh := ⟨-1, -1, -1⟩       -- NoEnhancedCode
def notSet : Enh := ⟨0, 0, 0⟩         -- EnhancedCodeNotSet


/-- a backend result -/
inductive BRes
  | ok
  | se (code : Nat) (enh : Enh) (msg : Bytes)     -- *SMTPError
  | er (msg : Bytes)                              -- any other error, with its Error() text
  | panic
deriving DecidableEq, Repr, Inhabited


structure MailOpts where
  body : Bytes := []
  size : Nat := 0
  requireTLS : Bool := false
  utf8 : Bool := false
  ret : Bytes := []
  envid : Bytes := []
  auth : Option Bytes := none
deriving DecidableEq, Repr, Inhabited

structure RcptOpts where
  notify : List Bytes := []
  orcptType : Bytes := []
  orcpt : Bytes := []
  rrvs : Option Int := none       -- unix seconds
deriving DecidableEq, Repr, Inhabited


inductive Ev
  | w (bs : Bytes)
  | ns (id : Nat) (helo : Bytes) (tls : Bool) (r : BRes)
  | mail (id : Nat) (frm : Bytes) (o : MailOpts) (r : BRes)
  | rcpt (id : Nat) (to : Bytes) (o : RcptOpts) (r : BRes)
  | reset (id : Nat)
  | logout (id : Nat)
  | authMech (id : Nat) (mech : Bytes) (r : BRes)
  | sasl (resp : Option Bytes) (challenge : Bytes) (done : Bool) (r : BRes)
  | dataBegin (id : Nat) (k : Nat)
  | tlsStart (ok : Bool)
  | cmd (line : Bytes)             -- the command loop has read this line (model traces only)
  | panicLog
  | close
deriving Repr, Inhabited

/-- how a delivery's reader ended -/
inductive RdEnd | none | eof | ueof | tooLarge | reset | tooLong | timeout | closed | panicked
deriving DecidableEq, Repr, Inhabited

/-- one `Data`/`LMTPData` call as the backend saw it -/
structure DRec where
  k : Nat
  sess : Nat
  octets : Bytes := []
  rdEnd : RdEnd := .none
  ret : BRes := .ok
  finished : Bool := false
deriving Repr, Inhabited


/-- what a scripted `Data`/`LMTPData` call returns -/
inductive DRet
  | res (r : BRes)
  | prop                          -- the reader's error if there was one (other than EOF), else nil
deriving DecidableEq, Repr, Inhabited

structure DataDec where
  want : Option Nat := none       -- octets to read before returning (`none` = to EOF / error)
  rsz : Nat := 4096               -- size of the buffer the backend reads with
  ret : DRet := .res .ok
  statuses : List (Bytes × BRes) := []   -- SetStatus calls (LMTPSession only), in order
deriving Repr, Inhabited


/-- the server configuration, as far as it is observable -/
structure Cfg where
  lmtp : Bool := false
  lmtpSess : Bool := false        -- the backend's sessions implement LMTPSession
  maxRcpt : Nat := 0
  maxMsg : Nat := 0
  maxLine : Nat := 2000
  insecureAuth : Bool := false
  tlsAvail : Bool := false        -- Server.TLSConfig != nil
  utf8 : Bool := false
  reqtls : Bool := false
  binmime : Bool := false
  dsn : Bool := false
  rrvs : Bool := false
  readTimeout : Bool := false
  authSess : Bool := false        -- the backend's sessions implement AuthSession
  mechs : List Bytes := []
  domain : Bytes := []
deriving Repr, Inhabited


end SmtpV.Spec
