import SmtpV.Spec.Data
import SmtpV.Model.DataReader
/-!
The executable judge for observations of a DATA reader (implementation or model):
given the octet stream, the size limit and the buffer sizes of the reads, and what the
reads returned, list the clauses of C01 / C02 / C06 / C07 that the observation violates.
It refers to the specification (`terminated?`) only — never to the reader model
(`DataReader.Res` is just the vocabulary of read results).
-/
namespace SmtpV.Spec.DataMon
open SmtpV SmtpV.Spec
open SmtpV.DataReader (Res)

/-- concatenation of the octets returned by a sequence of reads -/
def outs (l : List (Bytes × Res)) : Bytes := (l.map Prod.fst).flatten

def lastIs (res : List (Bytes × Res)) (r : Res) : Bool :=
  match res.getLast? with
  | some x => x.2 == r
  | none => false

def allPos (sizes : List Nat) : Bool := sizes.all (fun k => decide (0 < k))

def leLimit (lim : Option Nat) (k : Nat) : Bool :=
  match lim with
  | some n => decide (k ≤ n)
  | none => true

def limitLt (lim : Option Nat) (k : Nat) : Bool :=
  match lim with
  | some n => decide (n < k)
  | none => false

def check (lim : Option Nat) (s : Bytes) (sizes : List Nat)
    (results : List (Bytes × Res)) (rest : Bytes) : List String :=
  let out := outs results
  (if leLimit lim out.length then [] else ["C06 more octets handed over than the limit"]) ++
  match terminated? s with
  | none =>
    if results.any (fun x => x.2 == Res.eof) then ["C07/C02 EOF reported on a stream without end marker"] else []
  | some (body, rest0) =>
    if leLimit lim body.length then
      (if out.isPrefixOf body then [] else ["C01 octets returned are not a prefix of the body"]) ++
      (if results.all (fun x => x.2 == Res.more || x.2 == Res.eof) then []
       else ["C01/C06 error on a terminated stream that fits the limit"]) ++
      (if lastIs results Res.eof && !(out == body && rest == rest0)
       then ["C01/C02 EOF reported but body or leftover input differ"] else []) ++
      (if allPos sizes && decide (body.length < sizes.length) && !lastIs results Res.eof
       then ["C01 no EOF although enough non-empty reads were made"] else [])
    else
      (if results.all (fun x => x.2 == Res.more || x.2 == Res.tooLarge) then []
       else ["C06 over-size message: a read returned something other than nil / too-large"]) ++
      (if allPos sizes && limitLt lim sizes.length && !lastIs results Res.tooLarge
       then ["C06 over-size message not refused"] else [])

def ok (lim : Option Nat) (s : Bytes) (sizes : List Nat)
    (results : List (Bytes × Res)) (rest : Bytes) : Bool :=
  (check lim s sizes results rest).isEmpty

end SmtpV.Spec.DataMon
