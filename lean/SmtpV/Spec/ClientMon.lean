import SmtpV.Model.Client
import SmtpV.Spec.Data
/-!
Judges for observations of the real client against a scripted peer (`cconv` probe): C15 (one line per
step, only negotiated parameters), C16 (what the data writer puts on the wire; Close twice), C18
(LMTP callbacks belong to the current transaction), C09 client half (cancel token).
The scripted peer (`Client.Peer`) is replayed on the octets the client wrote, to know which reply the
client had in front of it; nothing of the client model is used.
-/
namespace SmtpV.Spec.ClientMon
open SmtpV SmtpV.Spec SmtpV.Text

structure Obs where
  call : Client.Call
  written : Bytes
  res : String
  extra : String
deriving Inhabited

def splitCRLF (bs : Bytes) : List Bytes × Bool :=
  -- lines (without CRLF) and whether the stream ends exactly after a CRLF (or is empty)
  let rec go : Bytes → Bytes → List Bytes → List Bytes × Bool
    | [], cur, acc => (acc.reverse, cur.isEmpty)
    | 13 :: 10 :: t, cur, acc => go t [] (cur.reverse :: acc)
    | c :: t, cur, acc => go t (c :: cur) acc
  go bs [] []

def isHelloLine (l : Bytes) : Bool := "EHLO ".b.isPrefixOf l || "LHLO ".b.isPrefixOf l || "HELO ".b.isPrefixOf l

def hasCRLF (s : Bytes) : Bool := s.any (fun b => b == 13 || b == 10)

/-- the extension keyword a MAIL/RCPT parameter needs -/
def needs (key : Bytes) : Option String :=
  let k := toUpper key
  if k == "BODY=BINARYMIME".b then some "BINARYMIME" else
  if k == "BODY".b then some "8BITMIME" else if k == "SIZE".b then some "SIZE"
  else if k == "REQUIRETLS".b then some "REQUIRETLS" else if k == "SMTPUTF8".b then some "SMTPUTF8"
  else if k == "RET".b || k == "ENVID".b || k == "NOTIFY".b || k == "ORCPT".b then some "DSN"
  else if k == "AUTH".b then some "AUTH" else if k == "RRVS".b then some "RRVS" else none

/-- parameters of a MAIL/RCPT line: the tokens after the closing `>` of the path -/
def paramKeys (line : Bytes) : List Bytes :=
  let afterPath := (line.dropWhile (· != 62)).drop 1
  (splitByte afterPath 32).filterMap fun tok =>
    if tok.isEmpty then none
    else if toUpper tok == "BODY=BINARYMIME".b then some tok      -- the one parameter whose extension depends on its value
    else some (tok.takeWhile (· != 61))

structure M where
  peer : Client.Peer
  ext : List Bytes := []              -- keys of the most recent EHLO reply
  accepted : List Bytes := []         -- recipients accepted in the current transaction
  parts : Bytes := []                 -- body written since the last Data call
  lastWasClose : Bool := false        -- the previous call closed an open writer or re-closed a closed one
  nWriters : Nat := 0                 -- DATA writers handed out so far
  closedW : List Nat := []            -- the ones whose Close has been called
  lastChunk : Bytes := []             -- the reply chunk most recently released by the peer
deriving Inhabited

/-- feed one written line (with CRLF) to the replayed peer; returns the chunk it released, if any -/
def feedLine (m : M) (l : Bytes) : M × Bytes :=
  let before := m.peer.readable.length
  let p := m.peer.feed (l ++ [13, 10])
  let released := p.readable.drop before
  ({ m with peer := { p with readable := [] }, lastChunk := if released.isEmpty then m.lastChunk else released }, released)

def extKeys (chunk : Bytes) : List Bytes :=
  -- lines after the first of a 250 reply, keyword = text up to the first SP
  let ls := (splitCRLF chunk).1
  (ls.drop 1).map fun l => (l.drop 4).takeWhile (· != 32)

def lineDiscipline (o : Obs) : List String :=
  let (ls, endsClean) := splitCRLF o.written
  let nonHello := ls.filter (fun l => !isHelloLine l)
  (if !endsClean then ["C15 the client wrote an unterminated line"] else []) ++
  (if ls.any hasCRLF then ["C15 a bare CR or LF inside a command line"] else []) ++
  (match o.call with
   | .hello _ => if nonHello.isEmpty && ls.length ≤ 2 then [] else ["C15 Hello wrote something other than greeting commands"]
   | .mail .. | .rcpt .. | .verify _ | .reset | .noop | .quit | .data | .lmtpData =>
     if nonHello.length ≤ 1 then [] else ["C15 more than one command line in one protocol step"]
   | _ => [])

def argOf : Client.Call → Option Bytes
  | .hello n => some n | .mail f _ => some f | .rcpt t _ => some t | .verify a => some a | _ => none

/-- C16's domain: CR occurs only as part of CRLF -/
def crOk (body : Bytes) : Bool := (body.zip (body.drop 1 ++ [0])).all (fun p => p.1 != 13 || p.2 == 10)

/-- bare LF (one not preceded by CR) becomes CRLF; `prev` is the octet before the list -/
def lfToCrlf : Byte → Bytes → Bytes
  | _, [] => []
  | prev, b :: t => if b == 10 && prev != 13 then 13 :: 10 :: lfToCrlf b t else b :: lfToCrlf b t

/-- C16's normal form: bare LF becomes CRLF and a final CRLF is ensured -/
def normBody (body : Bytes) : Bytes :=
  let n := lfToCrlf 0 body
  if n.isEmpty || !(hasSuffix n [13, 10]) then n ++ [13, 10] else n

/-- C09, client half: while the exchange goes on (the server answers 334 with a decodable challenge and the
    mechanism answers with octets), the challenge reaches the mechanism decoded and unaltered, and the
    mechanism's octets — empty ones included — are sent as the next line, base64-encoded.
    `chunks[i]` is the reply to `lines[i]`; `seen[i]` the challenge handed to the i-th `Next` call. -/
def authFaithful (fuel : Nat) (i : Nat) (lines chunks seen : List Bytes) (steps : List (Option (Option Bytes))) : List String :=
  match fuel with
  | 0 => []
  | fuel + 1 =>
    match chunks[i]? with
    | none => []
    | some ch =>
      let l := trimRightCRLF ch
      if !("334 ".b.isPrefixOf l || l == "334".b) || l.contains 10 then [] else
      match Server.b64Decode (l.drop 4) with
      | none => []
      | some challenge =>
        (if seen[i]? != some challenge then ["C09 a server challenge did not reach the client mechanism unaltered"] else []) ++
        (match steps[i]? with
         | some (some (some r)) =>
           (if lines[i + 1]? != some (Server.b64Encode r)
            then ["C09 the client mechanism's response was not sent to the server unaltered"] else []) ++
           authFaithful fuel (i + 1) lines chunks seen steps
         | _ => [])

def step (lmtp : Bool) (m : M) (o : Obs) : M × List String :=
  let (ls, _) := splitCRLF o.written
  -- replay the peer on every written line (message data lines included: the peer is in data mode then)
  let (m1, ehloExt) := ls.foldl (fun (acc : M × Option (List Bytes)) l =>
      let (m', rel) := feedLine acc.1 l
      if "EHLO ".b.isPrefixOf l || "LHLO ".b.isPrefixOf l then (m', some (if "250".b.isPrefixOf rel then extKeys rel else []))
      else if "HELO ".b.isPrefixOf l then (m', some [])
      else (m', acc.2)) (m, none)
  let m1 := match ehloExt with | some e => { m1 with ext := e } | none => m1
  let bad15 : List String :=
    lineDiscipline o ++
    (match argOf o.call with
     | some a => if hasCRLF a && (o.res != "err" || ls.any (fun l => !isHelloLine l))
                 then ["C15 an argument containing CR or LF was not refused locally with nothing written"] else []
     | none => []) ++
    (let cmdLines := ls.filter (fun l => !isHelloLine l)
     -- the line is `MAIL FROM:<from>` / `RCPT TO:<to>` followed only by parameters (the address is
     -- taken as given: text that looks like parameters *inside* the address is not a parameter)
     let pfx : Bytes := match o.call with
       | .mail f _ => "MAIL FROM:<".b ++ f ++ ">".b
       | .rcpt t _ => "RCPT TO:<".b ++ t ++ ">".b
       | _ => []
     let negotiated : List String :=
       if !cmdLines.all (fun l => pfx.isPrefixOf l) then ["C15 the command line does not start with the command and the given address"]
       else
       let keys := (cmdLines.map fun l => paramKeys (">".b ++ l.drop pfx.length)).flatten
       if keys.all (fun k => match needs k with | some e => m1.ext.contains e.b | none => false) then []
       else ["C15 a parameter was sent for an extension the server did not offer in its latest EHLO reply"]
     match o.call with
     | .mail _ opts =>
       negotiated ++
       (match opts with
        | some mo =>
          if (mo.requireTLS && !m1.ext.contains "REQUIRETLS".b || mo.utf8 && !m1.ext.contains "SMTPUTF8".b) &&
              !cmdLines.isEmpty
          then ["C15 REQUIRETLS/SMTPUTF8 requested but not offered was not a local error with nothing written"] else []
        | none => [])
     | .rcpt _ _ => negotiated
     | _ => [])
  -- transaction bookkeeping for C18 / C16
  let m2 := match o.call with
    | .mail .. => if o.res == "nil" then { m1 with accepted := [] } else m1
    | .rcpt t _ => if o.res == "nil" then { m1 with accepted := m1.accepted ++ [t] } else m1
    | .reset => if o.res == "nil" then { m1 with accepted := [] } else m1
    | .data | .lmtpData => if o.res == "nil" then { m1 with parts := [], nWriters := m1.nWriters + 1 } else m1
    | .write bs => { m1 with parts := m1.parts ++ bs }
    | _ => m1
  -- which writer a Close is about, and whether that writer had been closed before
  let closeIdx : Option Nat := match o.call with | .close k? => some (k?.getD (m.nWriters - 1)) | _ => none
  let again : Bool := match closeIdx with | some i => m.closedW.contains i | none => false
  let bad16 : List String := match o.call with
    | .close _ =>
      (if again && (o.res != "err" || !o.written.isEmpty)
       then ["C16 a second Close is not an error, or writes to the server again"] else []) ++
      (if !again && !o.written.isEmpty then
         -- the octets on the wire, read back with the DATA specification, are the normalised body
         let body := m.parts
         if crOk body && terminated? o.written != some (normBody body, [])
         then ["C16 the message on the wire does not read back as the normalised body followed by the end marker"] else []
       else [])
    | _ => []
  let bad18 : List String := match o.call with
    | .close _ =>
      if lmtp && !again && o.extra != "" then
        let cbRcpts := (o.extra.splitOn "+").map fun it => bytesOfHex ((it.splitOn "=").headD "")
        if o.res == "err" then
          (if cbRcpts.isPrefixOf m2.accepted then [] else ["C18 a status callback named a recipient that is not of this transaction"])
        else if cbRcpts != m2.accepted then ["C18 status callbacks are not exactly the recipients accepted in this transaction, in order"]
        else []
      else []
    | _ => []
  -- C18 "Close returns once exactly those replies have been read": afterwards every simple command gets its *own* reply,
  -- i.e. the one the peer released for that command's line (left-over or over-read replies shift them)
  let badOwn : List String :=
    let want : Option Nat := match o.call with | .noop => some 250 | .reset => some 250 | .quit => some 221 | _ => none
    match want, ls.getLast? with
    | some code, some lastLine =>
      -- replay up to the last line to learn which chunk it released
      let mBefore := (ls.dropLast).foldl (fun (acc : M) l => (feedLine acc l).1) m
      let chunk := (feedLine mBefore lastLine).2
      let l := trimRightCRLF chunk
      let single := !l.contains 10 && l.length ≥ 4 && (l.take 3).all isDigit && l[3]? == some 32
      if !single || isHelloLine lastLine then []
      else
        let own := (parseUintDec (l.take 3) 16).getD 0
        if (own == code) != (o.res == "nil") && (own == code || own / 100 == 4 || own / 100 == 5)
        then ["C18 a command was answered with a reply that is not its own (replies of an LMTP transaction were left unread or over-read)"]
        else []
    | _, _ => []
  let bad09 : List String := match o.call with
    | .auth _ _ steps =>
      let chunksAll := (ls.foldl (fun (acc : M × List Bytes) l => let (m', r) := feedLine acc.1 l; (m', acc.2 ++ [r])) (m, [])).2
      let seen := if o.extra == "" then [] else (o.extra.splitOn "+").map bytesOfHex
      let i0 := (ls.findIdx? (fun l => "AUTH ".b.isPrefixOf l)).getD ls.length      -- an EHLO may precede the AUTH line
      authFaithful (steps.length + 1) 0 (ls.drop i0) (chunksAll.drop i0) seen steps ++
      -- what the scripted mechanism answered in the `Next` calls that were made (a script that has run out answers
      -- with the empty response): nothing else may be sent as a response, nothing twice
      let stepAt (i : Nat) : Option (Option Bytes) := (steps[i]?).getD (some (some []))
      let produced := (List.range seen.length).filterMap fun i =>
        match stepAt i with | some (some r) => some (Server.b64Encode r) | _ => none
      let respLines := (ls.drop (i0 + 1)).filter (· != [42])
      (if respLines.isPrefixOf produced then []
       else ["C09 the client sent a response line that its mechanism did not produce for that step"]) ++
      (if (List.range seen.length).any (fun i => stepAt i == none) then
         (if ls.contains [42] then [] else ["C09 a client mechanism error did not cancel the exchange with '*'"]) ++
         (if o.res == "nil" then ["C09 Auth reports success although its mechanism failed"] else [])
       else []) ++
      (if o.res == "nil" && !steps.contains (some none) && i0 < ls.length &&
           !(chunksAll.drop i0).any (fun c => "235".b.isPrefixOf c)
       then ["C09 Auth reports success although the server never sent 235"] else []) ++
      let starIdx := ls.findIdx? (· == [42])
      match starIdx with
      | none => if steps.contains none && o.res == "err" && ls.length > 0 then [] else []
      | some _ =>
        -- a cancel token is right only after a local mechanism/decoding failure, i.e. while the server waits (334)
        let (mm, chunks) := ls.foldl (fun (acc : M × List Bytes) l => let (m', r) := feedLine acc.1 l; (m', acc.2 ++ [r])) (m, [])
        let _ := mm
        let beforeStar := (chunks.take ((starIdx.getD 0))).getLast?.getD []
        if "334".b.isPrefixOf beforeStar then []
        else ["C09 the client sends the cancel token '*' although the server had already ended the exchange"]
    | _ => []
  ({ m2 with lastWasClose := closeIdx.isSome,
             closedW := (match closeIdx with | some i => if i < m.nWriters then i :: m.closedW else m.closedW | none => m.closedW) },
   bad15 ++ bad16 ++ bad18 ++ badOwn ++ bad09)

def check (pid : String) (lmtp : Bool) (peer : Client.Peer) (obs : List Obs) : List String :=
  let (_, bad) := obs.foldl (fun (acc : M × List String) o => let (m', b) := step lmtp acc.1 o; (m', acc.2 ++ b))
    ({ peer := { peer with readable := [] } }, [])
  bad.filter (fun r => pid == "ALL" || pid.isPrefixOf r)

end SmtpV.Spec.ClientMon
