import SmtpV.Spec.Codec
import SmtpV.Spec.ClientMon
/-!
End-to-end judge (C14, C16, C17): the real client talked to the real server; what the caller passed
to the client API is compared with what the server's backend observed, and what the backend
answered with what the client API returned.  No model of either half is involved: the judge
relates two observations of the implementation by the property's own words.
-/
namespace SmtpV.Spec.E2E
open SmtpV SmtpV.Spec SmtpV.Text SmtpV.Spec.Codec

/-- one client API call with its arguments and the result it returned
    (`nil`, `err` = a local error, `se~code~a.b.c~hex` = an *SMTPError) -/
inductive Call
  | mail (frm : Bytes) (o : Option MailOpts) (res : String)
  | rcpt (to : Bytes) (o : Option RcptOpts) (res : String)
  | data (res : String)
  | write (bs : Bytes) (res : String)
  | close (res : String)
  | reset (res : String)
  | other
deriving Repr, Inhabited

def parseSE (r : String) : Option SErrV :=
  match r.splitOn "~" with
  | ["se", code, enh, msg] =>
    match enh.splitOn "." with
    | [a, b, c] => some { code := code.toNat?.getD 0, enh := ⟨a.toInt?.getD 0, b.toInt?.getD 0, c.toInt?.getD 0⟩, msg := bytesOfHex msg }
    | _ => none
  | _ => none

/-- result of a call against the backend's answer -/
def verdict (site : String) (b : BRes) (res : String) : List String :=
  match b with
  | .ok => if res == "nil" then [] else ["C17 the backend accepted but the client reports an error"]
  | .panic => []
  | _ => if res == "nil" then ["C17 the backend refused but the client reports success"]
         else check17 site b (parseSE res)

def mailOptsAgree (cfg : Cfg) (authOn : Bool) (given : MailOpts) (seen : MailOpts) : List String :=
  (if given.size != seen.size then ["C14 SIZE differs"] else []) ++
  (if given.body != [] && given.body != seen.body then ["C14 BODY differs"] else []) ++
  (if cfg.utf8 && given.utf8 != seen.utf8 then ["C14 SMTPUTF8 differs"] else []) ++
  (if cfg.dsn && given.ret != seen.ret then ["C14 RET differs"] else []) ++
  (if cfg.dsn && given.envid != seen.envid then ["C14 ENVID differs"] else []) ++
  (if authOn && given.auth != seen.auth then ["C14 AUTH= differs"] else [])

def rcptOptsAgree (cfg : Cfg) (given : RcptOpts) (seen : RcptOpts) : List String :=
  (if cfg.dsn && given.notify != seen.notify then ["C14 NOTIFY differs"] else []) ++
  (if cfg.dsn && (given.orcptType != seen.orcptType || given.orcpt != seen.orcpt) && given.orcptType != [] then ["C14 ORCPT differs"] else []) ++
  (if cfg.rrvs && given.rrvs != seen.rrvs then ["C14 RRVS differs"] else [])

structure St where
  evs : List Ev            -- mail / rcpt events not yet matched
  drecs : List DRec        -- deliveries not yet matched, in order
  body : Bytes := []
  writing : Bool := false
  closed : Bool := false
  tx : Bool := false       -- a MAIL call of the caller succeeded and the transaction has not ended
  bad : List String := []

def isLocal (res : String) : Bool := res == "err"

def step (cfg : Cfg) (authOn : Bool) (s : St) : Call → St
  | .mail f o res =>
    if isLocal res then { s with tx := false } else
    match s.evs with
    | .mail _ f' o' r :: rest =>
      { s with evs := rest, tx := res == "nil",
               bad := s.bad ++ (if f' != f then ["C14 the sender the backend saw differs from the one given"] else []) ++
                 mailOptsAgree cfg authOn (o.getD {}) o' ++ verdict "env" r res }
    | _ => { s with bad := s.bad ++ ["C14 a MAIL the client API accepted did not reach the backend"] }
  | .rcpt t o res =>
    if isLocal res || !s.tx then s else
    match s.evs with
    | .rcpt _ t' o' r :: rest =>
      { s with evs := rest,
               bad := s.bad ++ (if t' != t then ["C14 the recipient the backend saw differs from the one given"] else []) ++
                 rcptOptsAgree cfg (o.getD {}) o' ++ verdict "env" r res }
    | _ => { s with bad := s.bad ++ ["C14 a RCPT the client API accepted did not reach the backend"] }
  | .data res => if res == "nil" && s.tx then { s with body := [], writing := true, closed := false } else s
  | .write bs res => if s.writing && res == "nil" then { s with body := s.body ++ bs } else s
  | .close res =>
    if !s.writing then s
    else if s.closed then
      { s with bad := s.bad ++ (if res == "nil" then ["C16 a second Close is not an error"] else []) }
    else
    match s.drecs with
    | d :: rest =>
      { s with drecs := rest, closed := true, tx := false,
               bad := s.bad ++
                 (if ClientMon.crOk s.body && d.rdEnd == .eof && d.octets != ClientMon.normBody s.body
                  then ["C16 the backend did not receive the normalised message"] else []) ++
                 -- (LMTP with per-recipient statuses: the verdict is a vector, judged by C13/C18)
                 (if cfg.lmtp && cfg.lmtpSess then [] else
                    verdict "data" d.ret res ++
                    (if d.ret != .panic && (d.ret == .ok) != (res == "nil")
                     then ["C16 Close does not return the server's verdict for that message"] else [])) }
    | [] => { s with closed := true, bad := s.bad ++ ["C16 a closed message did not reach the backend"] }
  | .reset _ => { s with tx := false }
  | .other => s

def check (pid : String) (cfg : Cfg) (authOn : Bool) (evs : List Ev) (drecs : List DRec) (calls : List Call) : List String :=
  let relevant := evs.filter fun e => match e with | .mail .. => true | .rcpt .. => true | _ => false
  let s := calls.foldl (step cfg authOn) { evs := relevant, drecs := drecs }
  let bad := s.bad ++
    (if !s.evs.isEmpty && calls.all (fun c => match c with | .rcpt _ _ r => r != "err" | .mail _ _ r => r != "err" | _ => true)
     then ["C14 the backend saw envelope commands the caller never issued"] else []) ++
    (if !s.drecs.isEmpty then ["C16 the backend saw a message the caller never closed"] else [])
  bad.filter (fun r => pid == "ALL" || pid.isPrefixOf r)

end SmtpV.Spec.E2E
