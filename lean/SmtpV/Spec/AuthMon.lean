import SmtpV.Model.Server
import SmtpV.Spec.Monitors
/-!
C09, octet fidelity on the server side: **the mechanism receives exactly the base64-decoded octets the peer sent**.

Judged on the input stream and the trace alone.  Every SASL step the backend's mechanism sees carries a response
(`none` = no initial response, `some x` = these octets).  Each of them must have been sent: in order, each step's
response must be what one *distinct* input line means — either as an `AUTH mech [initial-response]` command (no
third field: `none`; a third field: its decoding, `=` being the empty response; the command may start anywhere in
the line, e.g. behind a BDAT payload) or as a continuation line (its decoding).  Lines are matched greedily in order (a subsequence embedding), so lines that never reach a mechanism —
message data, refused or discarded commands, plaintext dropped by STARTTLS — only add candidates and never raise an alarm.
The decoder used is the model's, which is proved to invert the encoder on every octet string (`C09_b64_roundtrip`).
-/
namespace SmtpV.Spec.AuthMon
open SmtpV SmtpV.Spec SmtpV.Text

/-- what a command line starting with the verb AUTH hands to the mechanism first -/
def asAuthCmd (line : Bytes) : List (Option Bytes) :=
  match fields line with
  | v :: _ :: rest =>
    if toUpper v == "AUTH".b then
      (match rest with
       | [] => [none]
       | ir :: _ => (match Server.decodeSASLResponse ir with | some x => [some x] | none => []))
    else []
  | _ => []

def tailsOf : Bytes → List Bytes
  | [] => [[]]
  | c :: t => (c :: t) :: tailsOf t

/-- what a line can mean to a SASL mechanism.  A command does not have to start where an LF-delimited line starts
    (it can follow the payload of a BDAT chunk), so every suffix that begins with the verb counts; a continuation
    line is read right behind the LF of the line before it, so only whole lines count as continuations. -/
def candidates (line0 : Bytes) : List (Option Bytes) :=
  let line := trimRightCRLF line0
  let asCmd : List (Option Bytes) :=
    ((tailsOf line).filter (fun t => toUpper (t.take 4) == "AUTH".b)).flatMap asAuthCmd
  let asCont : List (Option Bytes) :=
    match Server.decodeSASLResponse line with
    | some x => [some x]
    | none => []
  asCmd ++ asCont

def embeds : List (Option Bytes) → List (List (Option Bytes)) → Bool
  | [], _ => true
  | _ :: _, [] => false
  | r :: rs, c :: cs => if c.contains r then embeds rs cs else embeds (r :: rs) cs

def saslResponses (evs : List Ev) : List (Option Bytes) :=
  evs.filterMap fun e => match e with
    | .sasl resp _ _ _ => some resp
    | _ => none

def check (input : Bytes) (evs : List Ev) : List String :=
  if embeds (saslResponses evs) ((Mon.linesLF input [] []).map candidates) then []
  else ["C09 a SASL mechanism received a response that is not the decoding of what the peer sent"]

/-! ### C03: a session is created only by a greeting of the server's own flavour -/

/-- how many times a verb occurs in the input at a place where a command can start (the beginning of an LF-delimited line, or
    anywhere inside one — a command can follow a BDAT payload) -/
def verbOccurrences (input : Bytes) (verb : String) : Nat :=
  ((Mon.linesLF input [] []).map fun l => ((tailsOf l).filter (fun t => toUpper (t.take verb.length) == verb.b)).length).sum

/-- every `NewSession` call answers one greeting line of the flavour the server speaks (LHLO on an LMTP server, EHLO or HELO on
    an SMTP server): there are never more of them than such lines in the input.  (Lines that merely look like greetings —
    inside message data, or refused — only raise the allowance.) -/
def checkGreetFlavour (lmtp : Bool) (input : Bytes) (evs : List Ev) : List String :=
  let ns := (evs.filter fun e => match e with | .ns .. => true | _ => false).length
  let allowed := if lmtp then verbOccurrences input "LHLO" else verbOccurrences input "EHLO" + verbOccurrences input "HELO"
  if ns ≤ allowed then [] else ["C03 a session was created by a greeting that is not of the server's flavour"]

end SmtpV.Spec.AuthMon
