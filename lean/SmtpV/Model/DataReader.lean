import SmtpV.Basic
/-!
Model of `dataReader.Read` (data.go) — the DATA dot-unstuffing state machine,
its size budget and its end-of-data detection, over a flat octet source.

`it` is one iteration of the Go `for` loop (one `ReadByte`, one `switch`):
it says which state follows, which octet (if any) is stored into the caller's
buffer and whether the octet that was read is consumed (the `stateDotCR`
branch un-reads it).  `readLoop` is the loop `for n < len(b) && state != EOF`,
`read` is the whole method including the budget logic.
-/
namespace SmtpV.DataReader

inductive St | bol | dot | dotcr | cr | data | eof
deriving DecidableEq, Repr, Inhabited

def St.code : St → Nat
  | .bol => 0 | .dot => 1 | .dotcr => 2 | .cr => 3 | .data => 4 | .eof => 5

def St.fromCode : Nat → St
  | 0 => .bol | 1 => .dot | 2 => .dotcr | 3 => .cr | 4 => .data | _ => .eof

/-- One loop iteration on the octet `c` just obtained from `ReadByte`:
    (next state, octet stored in the buffer, `c` consumed?). -/
def it : St → Byte → St × Option Byte × Bool
  | .bol, c => if c = DOT then (.dot, none, true) else if c = CR then (.cr, some c, true) else (.data, some c, true)
  | .dot, c => if c = CR then (.dotcr, none, true) else (.data, some c, true)
  | .dotcr, c => if c = LF then (.eof, none, true) else (.cr, some CR, false)
  | .cr, c => if c = LF then (.bol, some c, true) else if c = CR then (.cr, some c, true) else (.data, some c, true)
  | .data, c => if c = CR then (.cr, some c, true) else (.data, some c, true)
  | .eof, _ => (.eof, none, false)

/-- The loop `for n < len(b) && r.state != stateEOF` with `k` free buffer slots.
    Result: state, octets stored, input left unread.  Stops when the buffer is
    full, the end marker has been consumed, or the input is exhausted. -/
def readLoop : St → Bytes → Nat → St × Bytes × Bytes
  | s, inp, 0 => (s, [], inp)
  | .eof, inp, _ => (.eof, [], inp)
  | s, [], _ => (s, [], [])
  | .dotcr, c :: inp, k + 1 =>
    if c = LF then (.eof, [], inp)
    else
      -- store the withheld CR, un-read `c`; the next iteration (state `cr`) reads `c` again
      match k with
      | 0 => (.cr, [CR], c :: inp)
      | k' + 1 =>
        let s' := (it .cr c).1
        let r := readLoop s' inp k'
        (r.1, CR :: c :: r.2.1, r.2.2)
  | s, c :: inp, k + 1 =>
    match it s c with
    | (s', some e, _) => let r := readLoop s' inp k; (r.1, e :: r.2.1, r.2.2)
    | (s', none, _) => let r := readLoop s' inp (k + 1); (r.1, r.2.1, r.2.2)

/-- What `Read` returns besides the octets. `more` = `nil` error. -/
inductive Res | more | eof | ueof | tooLarge
deriving DecidableEq, Repr, Inhabited

structure DR where
  state : St := .bol
  limited : Bool := false
  n : Nat := 0
deriving DecidableEq, Repr, Inhabited

def marker : Bytes := [DOT, CR, LF]

/-- `dataReader.Read(b)` with `len(b) = k` on a source that will deliver exactly
    `inp` and then fail (EOF or another error; both are reported as `ueof` here,
    the caller knows which).  Returns the new reader, the octets stored, the
    input left, and the error class. -/
def read (r : DR) (inp : Bytes) (k : Nat) : DR × Bytes × Bytes × Res :=
  if r.limited && r.n == 0 && r.state != .eof then
    if r.state == .bol && inp.take 3 == marker then
      ({ r with state := .eof }, [], inp.drop 3, .eof)
    else (r, [], inp, .tooLarge)
  else
    let k' := if r.limited then min k r.n else k
    let (s', out, rest) := readLoop r.state inp k'
    let r' : DR := { r with state := s', n := if r.limited then r.n - out.length else r.n }
    -- the loop ended because: buffer full, EOF state, or the source failed
    let res :=
      if s' == .eof then Res.eof
      else if out.length < k' then Res.ueof   -- neither full nor EOF: ReadByte failed
      else Res.more
    (r', out, rest, res)

/-- A whole sequence of `Read` calls with buffer sizes `sizes`; stops at the first error.
    Returns, per call, the octets and error class; and the final reader and input left. -/
def readSched (r : DR) (inp : Bytes) : List Nat → List (Bytes × Res) × DR × Bytes
  | [] => ([], r, inp)
  | k :: ks =>
    let (r', out, rest, res) := read r inp k
    match res with
    | .more =>
      let (l, rf, inpf) := readSched r' rest ks
      ((out, res) :: l, rf, inpf)
    | _ => ([(out, res)], r', rest)

end SmtpV.DataReader
