import SmtpV.Model.Text
/-!
Model of the xtext (RFC 3461), utf-8-addr-xtext and utf-8-addr-unitext (RFC 6533) codecs of
conn.go.  The two regexp-driven decoders are written as explicit left-to-right scanners with the
regexps' leftmost-first semantics.
-/
namespace SmtpV.Xtext
open SmtpV SmtpV.Text

def isUpperHex (b : Byte) : Bool := (48 ≤ b.toNat && b.toNat ≤ 57) || (65 ≤ b.toNat && b.toNat ≤ 70)
def hexValB (b : Byte) : Nat := if b.toNat ≤ 57 then b.toNat - 48 else b.toNat - 55
def hexDigitU (n : Nat) : Byte := UInt8.ofNat (if n < 10 then 48 + n else 55 + n)

/-- upper-case hex of `n`, at least two digits (`fmt.Sprintf("%02X", n)`) -/
def hexU : Nat → Nat → Bytes
  | 0, _ => []
  | fuel + 1, n => if n < 16 then [hexDigitU n] else hexU fuel (n / 16) ++ [hexDigitU (n % 16)]

def hex02 (n : Nat) : Bytes := if n < 16 then [48, hexDigitU n] else hexU 8 n

def hexToNat (s : Bytes) : Nat := s.foldl (fun acc b => acc * 16 + hexValB b) 0

/-- `decodeXtext` -/
def decodeXtextAux : Bytes → Option Bytes
  | [] => some []
  | 43 :: a :: b :: t =>     -- '+'
    if isUpperHex a && isUpperHex b && 16 * hexValB a + hexValB b < 128 then
      (decodeXtextAux t).map (fun r => UInt8.ofNat (16 * hexValB a + hexValB b) :: r)
    else none
  | 43 :: _ => none
  | c :: t => (decodeXtextAux t).map (fun r => c :: r)

def decodeXtext (s : Bytes) : Option Bytes :=
  if !containsByte s 43 then some s else decodeXtextAux s

def isCntrl (b : Byte) : Bool := b.toNat < 0x20 || b.toNat == 0x7F

/-- legal (width, value) pairs of an `\x{HEX}` escape -/
def legalHexpoint (width v : Nat) : Bool :=
  if width == 2 then
    (1 ≤ v && v ≤ 9) || (0x11 ≤ v && v ≤ 0x19) || v == 0x10 || v == 0x20 || v == 0x2B || v == 0x3D ||
      v == 0x7F || v == 0x5C || (0x80 ≤ v && v ≤ 0xFF)
  else if width == 3 then 0x100 ≤ v && v ≤ 0xFFF
  else if width == 4 then (0x1000 ≤ v && v ≤ 0xD7FF) || (0xE000 ≤ v && v ≤ 0xFFFF)
  else if width == 5 then 0x10000 ≤ v && v ≤ 0xFFFFF
  else if width == 6 then 0x100000 ≤ v && v ≤ 0x10FFFF
  else false

/-- does `\x{HEX+}` start here?  returns the hex digits and the rest after `}` -/
def matchEscape (s : Bytes) : Option (Bytes × Bytes) :=
  match s with
  | 92 :: 120 :: 123 :: t =>   -- \ x {
    let hex := t.takeWhile isUpperHex
    let rest := t.dropWhile isUpperHex
    match rest with
    | 125 :: r => if hex.isEmpty then none else some (hex, r)
    | _ => none
  | _ => none

def decodeUTF8AddrXtextAux : Nat → Bytes → Option Bytes
  | 0, _ => some []
  | _ + 1, [] => some []
  | fuel + 1, c :: t =>
    match matchEscape (c :: t) with
    | some (hex, rest) =>
      if legalHexpoint hex.length (hexToNat hex) then
        (decodeUTF8AddrXtextAux fuel rest).map (fun r => encodeRune (hexToNat hex) ++ r)
      else none
    | none =>
      if isCntrl c || c == SP || c == 92 || c == 43 || c == 61 then none
      else (decodeUTF8AddrXtextAux fuel t).map (fun r => c :: r)

/-- `decodeUTF8AddrXtext` -/
def decodeUTF8AddrXtext (s : Bytes) : Option Bytes := decodeUTF8AddrXtextAux (s.length + 1) s

/-- `isPrintableASCII` (ranges over runes: an invalid octet is U+FFFD, not printable) -/
def isPrintableASCII (s : Bytes) : Bool := s.all (fun b => 0x20 ≤ b.toNat && b.toNat ≤ 0x7E)

def xtextSafe (r : Nat) : Bool := 0x21 ≤ r && r ≤ 0x7E && r != 43 && r != 61

/-- `encodeXtext` (ranges over runes) -/
def encodeXtext (s : Bytes) : Bytes :=
  (runes s).flatMap fun (r, _) => if xtextSafe r then [UInt8.ofNat r] else 43 :: hex02 r

def qcharSafe (r : Nat) : Bool := xtextSafe r && r != 92

def escapeRune (r : Nat) : Bytes := [92, 120, 123] ++ hex02 r ++ [125]

/-- `encodeUTF8AddrXtext` -/
def encodeUTF8AddrXtext (s : Bytes) : Bytes :=
  (runes s).flatMap fun (r, _) => if qcharSafe r then [UInt8.ofNat r] else escapeRune r

/-- `encodeUTF8AddrUnitext` -/
def encodeUTF8AddrUnitext (s : Bytes) : Bytes :=
  (runes s).flatMap fun (r, _) =>
    if qcharSafe r then [UInt8.ofNat r] else if r ≤ 0x7F then escapeRune r else encodeRune r

end SmtpV.Xtext
