import SmtpV.Basic
import SmtpV.Model.DataReader
/-!
The wire below the command loop: what successive socket `Read`s return (`segs`), the
`lineLimitReader` (lengthlimit_reader.go) and the subset of `bufio.Reader` /
`textproto.Reader` behaviour the server relies on (4096-octet buffer, fill only when needed,
error latching, `ReadLine` handing out a buffered partial line with a nil error).
stdlib code is *modelled from its source*, and tied by the differential probes.
-/
namespace SmtpV.Wire
open SmtpV

/-- errors a read can end with -/
inductive RErr | eof | tooLong | timeout | closed
deriving DecidableEq, Repr, Inhabited

def bufSize : Nat := 4096

structure W where
  segs : List Bytes := []      -- what successive conn.Read calls will return (each non-empty)
  tail : RErr := .eof          -- what conn.Read returns once `segs` is exhausted
  buf : Bytes := []            -- bufio: buffered, unread
  err : Option RErr := none    -- bufio: latched error
  limit : Nat := 0             -- lineLimitReader.LineLimit (0 = off)
  cur : Nat := 0               -- lineLimitReader.curLineLength
  tripped : Bool := false      -- lineLimitReader.tripped
deriving Repr, Inhabited

/-- `conn.Read(p)` with `len(p) = space` (> 0) -/
def connRead (w : W) (space : Nat) : W × Except RErr Bytes :=
  match w.segs with
  | [] => (w, .error w.tail)
  | s :: rest =>
    if s.length ≤ space then ({ w with segs := rest }, .ok s)
    else ({ w with segs := s.drop space :: rest }, .ok (s.take space))

/-- one octet through the counter: LF resets it, then every octet (the LF included) counts -/
def bump (cur : Nat) (b : Byte) : Nat := (if b == LF then 0 else cur) + 1

/-- the counting loop of `lineLimitReader.Read`: `(cur', tripped?)` -/
def countLoop (limit : Nat) : Nat → Bytes → Nat × Bool
  | cur, [] => (cur, false)
  | cur, b :: t => if bump cur b > limit then (bump cur b, true) else countLoop limit (bump cur b) t

/-- `lineLimitReader.Read(p)` -/
def limRead (w : W) (space : Nat) : W × Except RErr Bytes :=
  if w.cur > w.limit && w.limit > 0 then ({ w with tripped := true }, .error .tooLong)
  else
    match connRead w space with
    | (w1, .error e) => (w1, .error e)
    | (w1, .ok bs) =>
      if w1.limit == 0 then (w1, .ok bs)
      else
        let (cur', trip) := countLoop w1.limit w1.cur bs
        if trip then ({ w1 with cur := cur', tripped := true }, .error .tooLong)
        else ({ w1 with cur := cur' }, .ok bs)

/-- `lineLimitReader.resume(limit, pending)`: the limit is put back after a BDAT chunk, the counter restarts and `pending` — the
    buffered beginning of the next command lines, none since the length check in `readLine` — is counted. -/
def resume (w : W) (limit : Nat) (pending : Bytes) : W :=
  if limit == 0 then { w with limit := 0, cur := 0 }
  else
    let (cur', trip) := countLoop limit 0 pending
    { w with limit := limit, cur := cur', tripped := w.tripped || trip }

/-- `bufio.Reader.fill` (one source read into the free space; latches an error) -/
def fill (w : W) : W :=
  match limRead w (bufSize - w.buf.length) with
  | (w1, .ok bs) => { w1 with buf := w1.buf ++ bs }
  | (w1, .error e) => { w1 with err := some e }

/-- index just past the first LF of `s` -/
def lfEnd (s : Bytes) : Option Nat :=
  let rec go : Bytes → Nat → Option Nat
    | [], _ => none
    | c :: t, i => if c == LF then some (i + 1) else go t (i + 1)
  go s 0

inductive SliceRes
  | line (bs : Bytes)                  -- through the LF
  | full (bs : Bytes)                  -- ErrBufferFull: 4096 octets without LF
  | errWith (bs : Bytes) (e : RErr)    -- buffered octets (possibly none) together with the latched error

/-- `bufio.Reader.ReadSlice('\n')`; `fuel` bounds the fill loop (each fill adds octets or latches). -/
def readSlice : Nat → W → W × SliceRes
  | 0, w => (w, .errWith [] .eof)
  | fuel + 1, w =>
    match lfEnd w.buf with
    | some i => ({ w with buf := w.buf.drop i }, .line (w.buf.take i))
    | none =>
      match w.err with
      | some e => ({ w with buf := [], err := none }, .errWith w.buf e)
      | none =>
        if w.buf.length ≥ bufSize then ({ w with buf := [] }, .full w.buf)
        else readSlice fuel (fill w)

/-- result of `bufio.Reader.ReadLine` -/
inductive LineRes
  | piece (bs : Bytes) (more : Bool)
  | err (e : RErr)

def bufioReadLine (fuel : Nat) (w : W) : W × LineRes :=
  match readSlice fuel w with
  | (w1, .full bs) =>
    -- a trailing CR is put back so that a CRLF split across pieces is still recognised
    if bs.getLast? == some CR then ({ w1 with buf := [CR] }, .piece bs.dropLast true)
    else (w1, .piece bs true)
  -- bufio hands out the unterminated rest of the input as a line (nil error) when the source fails; `Conn.readLine` turns
  -- that back into the source's error (repaired: a command cut short by a disconnect or a timeout is not executed)
  | (w1, .errWith _ e) => (w1, .err e)
  | (w1, .line bs) =>
    let body := bs.dropLast    -- without LF
    let body := if body.getLast? == some CR then body.dropLast else body
    (w1, .piece body false)

/-- `textproto.Reader.ReadLine`: concatenate the pieces of one line; an error after some pieces
    loses them -/
def readLineAux : Nat → Nat → W → Bytes → W × Except RErr Bytes
  | 0, _, w, _ => (w, .error .eof)
  | n + 1, fuel, w, acc =>
    match bufioReadLine fuel w with
    | (w1, .err e) => (w1, .error e)
    | (w1, .piece bs false) => (w1, .ok (acc ++ bs))
    | (w1, .piece bs true) => readLineAux n fuel w1 (acc ++ bs)

/-- fuel: every fill consumes a segment or part of one, or latches an error -/
def fuelOf (w : W) : Nat := (w.segs.map (fun s => s.length / 1 + 1)).sum + w.buf.length + 8

/-- `Conn.readLine` (conn.go): the line limiter's latch turns a handed-out fragment of an over-long
    line into `ErrTooLongLine`.  (`SetReadDeadline` on a closed socket is handled by the caller.) -/
def readLine (w : W) : W × Except RErr Bytes :=
  let f := fuelOf w
  match readLineAux f f w [] with
  | (w1, .ok l) =>
    if w1.tripped then (w1, .error .tooLong)
    -- a line that was buffered while the limit was lifted for a BDAT chunk: its length is checked where it is handed out
    else if w1.limit > 0 && l.length + 1 > w1.limit then (w1, .error .tooLong)
    else (w1, .ok l)
  | (w1, .error e) => (w1, .error e)

/-- `bufio.Reader.ReadByte` -/
def readByte (w : W) : W × Except RErr Byte :=
  match w.buf with
  | b :: t => ({ w with buf := t }, .ok b)
  | [] =>
    match w.err with
    | some e => ({ w with err := none }, .error e)
    | none =>
      let w1 := fill w
      match w1.buf with
      | b :: t => ({ w1 with buf := t }, .ok b)
      | [] =>
        match w1.err with
        | some e => ({ w1 with err := none }, .error e)
        | none => (w1, .error .eof)   -- unreachable: fill adds octets or latches

/-- `bufio.Reader.Peek(3)`: fill until 3 octets are buffered or an error is latched; a short result
    clears the latched error -/
def peek3 : Nat → W → W × Bytes
  | 0, w => (w, w.buf.take 3)
  | fuel + 1, w =>
    if w.buf.length ≥ 3 then (w, w.buf.take 3)
    else match w.err with
      | some _ => ({ w with err := none }, w.buf)
      | none => peek3 fuel (fill w)

/-! ### the DATA reader over the wire -/

open DataReader in
/-- `dataReader.Read(b)` with `len(b) = k` on the wire: the flat `DataReader.read` applied to what
    is buffered, refilling when the buffer runs dry.  Returns the reader, the octets, the wire and
    the error class (`ueof` stands for "the source failed"; `srcErr` says how). -/
def dataRead : Nat → DR → W → Nat → Bytes → (DR × W × Bytes × Res × Option RErr)
  | 0, r, w, _, acc => (r, w, acc, .ueof, some .eof)
  | fuel + 1, r, w, k, acc =>
    if r.limited && r.n == 0 && r.state != .eof then
      -- budget used up: only the end marker may follow (Peek(3)); a reader that has reported end-of-file keeps doing so
      let (w1, p) := peek3 (fuelOf w) w
      if r.state == .bol && p == DataReader.marker then
        ({ r with state := .eof }, { w1 with buf := w1.buf.drop 3 }, acc, .eof, none)
      else (r, w1, acc, .tooLarge, none)
    else
      let k' := if r.limited then min k r.n else k
      let (s', out, rest) := readLoop r.state w.buf k'
      let r' : DR := { r with state := s', n := if r.limited then r.n - out.length else r.n }
      let w' := { w with buf := rest }
      let acc' := acc ++ out
      if s' == .eof then (r', w', acc', .eof, none)
      else if out.length < k' then
        -- the buffer ran dry: ReadByte fills (or reports the latched error)
        match w'.err with
        | some e =>
          ({ r' with n := r'.n }, { w' with err := none }, acc', .ueof, some e)
        | none =>
          let w2 := fill w'
          if w2.buf.isEmpty then
            match w2.err with
            | some e => (r', { w2 with err := none }, acc', .ueof, some e)
            | none => (r', w2, acc', .ueof, some .eof)
          else
            -- continue the same Read call with the remaining buffer space; the budget was already
            -- charged for `out`, so continue with an unclamped request of the remaining slots
            let (r2, w3, acc2, res, e) := dataRead fuel { r' with limited := false } w2 (k' - out.length) acc'
            ({ r2 with limited := r.limited,
                       n := if r.limited then r.n - (acc2.length - acc.length) else r2.n }, w3, acc2, res, e)
      else (r', w', acc', .more, none)

end SmtpV.Wire
