import SmtpV.Model.Text
import SmtpV.Spec.Events
/-!
Model of reply rendering: `Conn.writeResponse`, `writeError`, `dataErrorToStatus` (conn.go).
-/
namespace SmtpV.Reply
open SmtpV SmtpV.Text SmtpV.Spec

/-- the enhanced code actually sent: `EnhancedCodeNotSet` becomes `X.0.0` of the reply's class for
    classes 2, 4, 5 and is dropped otherwise -/
def effEnh (code : Nat) (enh : Enh) : Enh :=
  if enh == notSet then
    let cat := code / 100
    if cat == 2 || cat == 4 || cat == 5 then ⟨cat, 0, 0⟩ else noEnh
  else enh

def enhBytes (e : Enh) : Bytes := intToDec e.a ++ [46] ++ intToDec e.b ++ [46] ++ intToDec e.c

/-- join with LF, split on LF (`strings.Split(strings.Join(text, "\n"), "\n")`) -/
def textLines (texts : List Bytes) : List Bytes :=
  splitByte (List.intercalate [LF] texts) LF

def renderLine (code : Nat) (sep : Byte) (enh : Enh) (t : Bytes) : Bytes :=
  natToDec code ++ [sep] ++ (if enh == noEnh then [] else enhBytes enh ++ [SP]) ++ t ++ crlf

/-- octets written by `writeResponse(code, enh, text...)` -/
def render (code : Nat) (enh : Enh) (texts : List Bytes) : Bytes :=
  let e := effEnh code enh
  let ls := textLines texts
  (ls.dropLast.flatMap (renderLine code 45 e)) ++
    (match ls.getLast? with
     | some l => renderLine code SP e l
     | none => [])

/-- `writeError(code, enh, err)` -/
def renderError (code : Nat) (enh : Enh) : BRes → Bytes
  | .se c e m => render c e [m]
  | .er m => render code enh [m]
  | _ => []

/-- `dataErrorToStatus(err)` -/
def dataStatus : BRes → Nat × Enh × Bytes
  | .se c e m => (c, e, m)
  | .er m => (554, ⟨5, 0, 0⟩, "Error: transaction failed: ".b ++ m)
  | _ => (250, ⟨2, 0, 0⟩, "OK: queued".b)

end SmtpV.Reply
