import SmtpV.Model.Wire
import SmtpV.Model.Parse
import SmtpV.Model.Xtext
import SmtpV.Model.Reply
/-!
Model of the server side of a connection: `Server.handleConn`'s command loop (server.go) and
`Conn.handle` with all its handlers (conn.go), driven by a scripted backend over the wire model.
It is a transliteration, guard by guard and in source order, of the code in /repo — including
its known defects — and produces the observable trace `List Ev` plus one record per `Data` /
`LMTPData` call.
-/
namespace SmtpV.Server
open SmtpV SmtpV.Text SmtpV.Wire SmtpV.Reply SmtpV.Parse SmtpV.Xtext SmtpV.Spec

structure SaslStep where
  challenge : Bytes := []
  done : Bool := true
  res : BRes := .ok
deriving Repr, Inhabited

/-- decision queues, one per callback kind; an exhausted queue answers "accept" -/
structure Backend where
  ns : List BRes := []
  mail : List BRes := []
  rcpt : List BRes := []
  data : List DataDec := []
  auth : List BRes := []          -- result of `Auth(mech)`
  sasl : List SaslStep := []      -- successive `Next` results
  hs : List Bool := []            -- TLS handshake outcomes
deriving Repr, Inhabited

structure Conn where
  helo : Bytes := []
  errCount : Nat := 0
  session : Option Nat := none
  binarymime : Bool := false
  bdat : Option Nat := none            -- open chunked transfer: index of its delivery record
  bdatStatus : Option (List Bytes) := none   -- recipients the status collector was created for
  bytesReceived : Nat := 0
  fromReceived : Bool := false
  recipients : List Bytes := []
  didAuth : Bool := false
  closed : Bool := false
  tls : Bool := false
  nextSess : Nat := 0
deriving Repr, Inhabited

structure S where
  cfg : Cfg
  c : Conn := {}
  w : W := {}
  tlsW : Option W := none              -- the octets inside TLS, available after a successful STARTTLS
  be : Backend := {}
  evs : List Ev := []                  -- newest first
  drecs : List DRec := []              -- index = k
  decs : List (Option DataDec) := []   -- decision of delivery k (chunked deliveries keep theirs while open)
  wac : Nat := 0                       -- writes attempted after the socket was closed
deriving Repr, Inhabited

/-! ### small helpers -/

def emit (s : S) (e : Ev) : S := { s with evs := e :: s.evs }

/-- a write on the socket: dropped (and counted) once the socket is closed -/
def write (s : S) (bs : Bytes) : S :=
  if s.c.closed then { s with wac := s.wac + 1 } else emit s (.w bs)

def reply (s : S) (code : Nat) (enh : Enh) (text : String) : S := write s (render code enh [text.b])
def replyB (s : S) (code : Nat) (enh : Enh) (texts : List Bytes) : S := write s (render code enh texts)

def popNs (s : S) : BRes × S :=
  match s.be.ns with | r :: t => (r, { s with be := { s.be with ns := t } }) | [] => (.ok, s)
def popMail (s : S) : BRes × S :=
  match s.be.mail with | r :: t => (r, { s with be := { s.be with mail := t } }) | [] => (.ok, s)
def popRcpt (s : S) : BRes × S :=
  match s.be.rcpt with | r :: t => (r, { s with be := { s.be with rcpt := t } }) | [] => (.ok, s)
def popData (s : S) : DataDec × S :=
  match s.be.data with | r :: t => (r, { s with be := { s.be with data := t } }) | [] => ({}, s)
def popAuth (s : S) : BRes × S :=
  match s.be.auth with | r :: t => (r, { s with be := { s.be with auth := t } }) | [] => (.ok, s)
def popSasl (s : S) : SaslStep × S :=
  match s.be.sasl with | r :: t => (r, { s with be := { s.be with sasl := t } }) | [] => ({}, s)
def popHs (s : S) : Bool × S :=
  match s.be.hs with | r :: t => (r, { s with be := { s.be with hs := t } }) | [] => (true, s)

def setDrec (s : S) (k : Nat) (f : DRec → DRec) : S :=
  { s with drecs := s.drecs.mapIdx (fun i d => if i == k then f d else d) }

/-- what a scripted callback returns, given how its reader ended -/
def resolveRet (ret : DRet) (e : RdEnd) : BRes :=
  match ret with
  | .res r => r
  | .prop =>
    match e with
    | .none | .eof => .ok
    | .ueof => .er "unexpected EOF".b
    | .tooLarge => .se 552 ⟨5, 3, 4⟩ "Maximum message size exceeded".b
    | .reset => .er "smtp: message transmission aborted".b
    | .tooLong => .er "smtp: too long a line in input stream".b
    | .timeout => .er "i/o timeout".b
    | .closed => .er "use of closed network connection".b
    | .panicked => .se 421 ⟨4, 0, 0⟩ "Internal server error".b

/-! ### chunked deliveries (the goroutine started by the first BDAT of a transfer)

Because `io.Pipe` is synchronous the delivery is a deterministic function of what is written to
the pipe: it takes octets until it has `want` of them (then the backend returns at once) or until
the pipe is closed. -/

def delivRunning (s : S) (k : Nat) : Bool :=
  match s.drecs[k]? with
  | some d => !d.finished
  | none => false

def delivDec (s : S) (k : Nat) : DataDec := ((s.decs[k]?).getD none).getD {}

def countOf (a : Bytes) (l : List Bytes) : Nat := (l.filter (· == a)).length

/-- apply the backend's `SetStatus` calls; `false` = a call panicked (unknown recipient or one call
    too many), with the queue contents up to that point -/
def applyStatuses (rcpts : List Bytes) : List (Bytes × BRes) → List (Bytes × BRes) → List (Bytes × BRes) × Bool
  | [], q => (q, true)
  | (a, r) :: rest, q =>
    if !rcpts.contains a then (q, false)
    else if countOf a (q.map (·.1)) ≥ countOf a rcpts then (q, false)
    else applyStatuses rcpts rest (q ++ [(a, r)])

/-- the backend returns: record how the reader ended and the result.  An out-of-contract
    `SetStatus` call (LMTPSession backends) is a panic inside the backend. -/
def delivOutcome (s : S) (k : Nat) (e : RdEnd) : BRes :=
  let dec := delivDec s k
  let stOk := !(s.cfg.lmtp && s.cfg.lmtpSess) ||
    (applyStatuses ((s.c.bdatStatus).getD s.c.recipients) dec.statuses []).2
  if stOk then resolveRet dec.ret e else .panic

def delivFinish (s : S) (k : Nat) (e : RdEnd) : S :=
  let ret := delivOutcome s k e
  let s1 := setDrec s k (fun d => { d with finished := true, rdEnd := e, ret := ret })
  if ret == .panic then emit s1 .panicLog else s1

def delivRet (s : S) (k : Nat) : BRes := ((s.drecs[k]?).map (·.ret)).getD .ok

/-- the pipe is closed with `ErrDataReset` (RSET, failed chunk, Close) -/
def delivAbort (s : S) (k : Nat) : S :=
  if delivRunning s k then delivFinish s k .reset else s

/-- how many of the octets of a pipe write the backend takes -/
def delivTake (s : S) (k : Nat) (bs : Bytes) : Nat :=
  let got := ((s.drecs[k]?).map (·.octets.length)).getD 0
  match (delivDec s k).want with
  | none => bs.length
  | some n => min bs.length (n - got)

/-- has the backend got everything it wants once it has taken `take` more octets? -/
def delivReached (s : S) (k : Nat) (take : Nat) : Bool :=
  let got := ((s.drecs[k]?).map (·.octets.length)).getD 0
  match (delivDec s k).want with
  | none => false
  | some n => got + take ≥ n

/-- one `PipeWriter.Write(bs)`: `(state, accepted everything?)` -/
def delivWrite (s : S) (k : Nat) (bs : Bytes) : S × Bool :=
  if !delivRunning s k then (s, false)
  else
    let take := delivTake s k bs
    let s1 := setDrec s k (fun d => { d with octets := d.octets ++ bs.take take })
    let s2 := if delivReached s k take then delivFinish s1 k .none else s1
    (s2, take == bs.length)

/-- the error a failed pipe write reports: the backend's result, `io.ErrClosedPipe` for nil -/
def pipeWriteErr (r : BRes) : BRes :=
  match r with
  | .ok => .er "io: read/write on closed pipe".b
  | .panic => .se 421 ⟨4, 0, 0⟩ "Internal server error".b
  | x => x

/-! ### Conn.Close, Conn.reset, protocolError -/

/-- `bdatPipe.CloseWithError(ErrDataReset); bdatPipe = nil` -/
def abortBdat (s : S) : S :=
  match s.c.bdat with
  | some k => { delivAbort s k with c := { s.c with bdat := none } }
  | none => s

/-- `session.Logout(); session = nil` -/
def logoutSess (s : S) : S :=
  match s.c.session with
  | some id => { emit s (.logout id) with c := { s.c with session := none } }
  | none => s

/-- `conn.Close()` (logged once) -/
def closeSock (s : S) : S :=
  if s.c.closed then s else emit { s with c := { s.c with closed := true } } .close

def closeConn (s : S) : S := closeSock (logoutSess (abortBdat s))

/-- `session.Reset()` if there is a session -/
def resetSess (s : S) : S :=
  match s.c.session with
  | some id => emit s (.reset id)
  | none => s

def clearEnvelope (s : S) : S :=
  { s with c := { s.c with bdatStatus := none, bytesReceived := 0, fromReceived := false, recipients := [] } }

def resetConn (s : S) : S := clearEnvelope (resetSess (abortBdat s))

def errThreshold : Nat := 3

def protocolError (s : S) (code : Nat) (enh : Enh) (text : String) : S :=
  let s := reply s code enh text
  let s := { s with c := { s.c with errCount := s.c.errCount + 1 } }
  if s.c.errCount > errThreshold then
    closeConn (reply s 500 ⟨5, 5, 1⟩ "Too many errors. Quiting now")
  else s

def protocolErrorB (s : S) (code : Nat) (enh : Enh) (text : Bytes) : S :=
  let s := replyB s code enh [text]
  let s := { s with c := { s.c with errCount := s.c.errCount + 1 } }
  if s.c.errCount > errThreshold then
    closeConn (reply s 500 ⟨5, 5, 1⟩ "Too many errors. Quiting now")
  else s

def authAllowed (s : S) : Bool := s.c.tls || s.cfg.insecureAuth

/-! ### EHLO / HELO / LHLO -/

def caps (s : S) : List Bytes :=
  ["PIPELINING".b, "8BITMIME".b, "ENHANCEDSTATUSCODES".b, "CHUNKING".b] ++
  (if s.cfg.tlsAvail && !s.c.tls then ["STARTTLS".b] else []) ++
  (if authAllowed s && s.cfg.authSess && !s.cfg.mechs.isEmpty then
     ["AUTH".b ++ s.cfg.mechs.flatMap (fun m => SP :: m)] else []) ++
  (if s.cfg.utf8 then ["SMTPUTF8".b] else []) ++
  (if s.c.tls && s.cfg.reqtls then ["REQUIRETLS".b] else []) ++
  (if s.cfg.binmime then ["BINARYMIME".b] else []) ++
  (if s.cfg.dsn then ["DSN".b] else []) ++
  (if s.cfg.maxMsg > 0 then ["SIZE ".b ++ natToDec s.cfg.maxMsg] else ["SIZE".b]) ++
  (if s.cfg.maxRcpt > 0 then ["LIMITS RCPTMAX=".b ++ natToDec s.cfg.maxRcpt] else []) ++
  (if s.cfg.rrvs then ["RRVS".b] else [])

/-- returns the state and whether a backend callback panicked -/
def setHelo (s : S) (d : Bytes) : S := { s with c := { s.c with helo := d } }

/-- the reply to an accepted greeting: plain for HELO, the capability list for EHLO/LHLO -/
def greetReply (s : S) (enhanced : Bool) (domain : Bytes) : S :=
  if !enhanced then replyB s 250 ⟨2, 0, 0⟩ ["Hello ".b ++ printable domain]
  else replyB s 250 noEnh (("Hello ".b ++ printable domain) :: caps s)

/-- `Backend.NewSession` (only called while there is no session): the session is installed iff it was accepted -/
def newSession (s : S) (domain : Bytes) : S × BRes :=
  let (r, s) := popNs s
  let id := s.c.nextSess
  let s := { s with c := { s.c with nextSess := id + 1, session := if r == .ok then some id else none } }
  (emit s (.ns id domain s.c.tls r), r)

def handleGreet (s : S) (enhanced : Bool) (arg : Bytes) : S × Bool :=
  match parseHelloArgument arg with
  | none => (reply s 501 ⟨5, 5, 2⟩ "Domain/address argument required for HELO", false)
  | some domain =>
    let s := setHelo s domain
    match s.c.session with
    | some _ => (greetReply (resetConn s) enhanced domain, false)
    | none =>
      let (s, r) := newSession s domain
      match r with
      | .ok => (greetReply s enhanced domain, false)
      | .panic => (s, true)
      | e => (write (setHelo s []) (renderError 451 ⟨4, 0, 0⟩ e), false)

/-! ### MAIL -/

inductive POut (α : Type)
  | ok (a : α)
  | refuse (code : Nat) (enh : Enh) (text : String)

/-- the MAIL parameter switch, parameters in order of first appearance (Go iterates over a map in
    unspecified order; with at most one faulty parameter the outcome does not depend on it).
    Returns the options and the `binarymime` flag, or the refusal. -/
def mailParams (cfg : Cfg) : List (Bytes × Bytes) → MailOpts → Bool → POut (MailOpts × Bool)
  | [], o, bm => .ok (o, bm)
  | (key, value) :: rest, o, bm =>
    if key == "SIZE".b then
      match parseUintDec value 63 with
      | none => .refuse 501 ⟨5, 5, 4⟩ "Unable to parse SIZE as an integer"
      | some size =>
        if cfg.maxMsg > 0 && size > cfg.maxMsg then .refuse 552 ⟨5, 3, 4⟩ "Max message size exceeded"
        else mailParams cfg rest { o with size := size } bm
    else if key == "SMTPUTF8".b then
      if !cfg.utf8 then .refuse 504 ⟨5, 5, 4⟩ "SMTPUTF8 is not implemented"
      else if !value.isEmpty then .refuse 501 ⟨5, 5, 4⟩ "SMTPUTF8 does not take a value"
      else mailParams cfg rest { o with utf8 := true } bm
    else if key == "REQUIRETLS".b then
      if !cfg.reqtls then .refuse 504 ⟨5, 5, 4⟩ "REQUIRETLS is not implemented"
      else if !value.isEmpty then .refuse 501 ⟨5, 5, 4⟩ "REQUIRETLS does not take a value"
      else mailParams cfg rest { o with requireTLS := true } bm
    else if key == "BODY".b then
      let v := toUpper value
      if v == "BINARYMIME".b then
        if !cfg.binmime then .refuse 504 ⟨5, 5, 4⟩ "BINARYMIME is not implemented"
        else mailParams cfg rest { o with body := v } true
      else if v == "7BIT".b || v == "8BITMIME".b then mailParams cfg rest { o with body := v } bm
      else .refuse 501 ⟨5, 5, 4⟩ "Unknown BODY value"
    else if key == "RET".b then
      if !cfg.dsn then .refuse 504 ⟨5, 5, 4⟩ "RET is not implemented"
      else
        let v := toUpper value
        if v == "FULL".b || v == "HDRS".b then mailParams cfg rest { o with ret := v } bm
        else .refuse 501 ⟨5, 5, 4⟩ "Unknown RET value"
    else if key == "ENVID".b then
      if !cfg.dsn then .refuse 504 ⟨5, 5, 4⟩ "ENVID is not implemented"
      else
        match decodeXtext value with
        | some v =>
          if v.isEmpty || !isPrintableASCII v then .refuse 501 ⟨5, 5, 4⟩ "Malformed ENVID parameter value"
          else mailParams cfg rest { o with envid := v } bm
        | none => .refuse 501 ⟨5, 5, 4⟩ "Malformed ENVID parameter value"
    else if key == "AUTH".b then
      match decodeXtext value with
      | some v =>
        if v.isEmpty then .refuse 500 ⟨5, 5, 4⟩ "Malformed AUTH parameter value"
        else if v == "<>".b then mailParams cfg rest { o with auth := some [] } bm
        else
          match parseMailbox v with
          | some (mb, []) => mailParams cfg rest { o with auth := some mb } bm
          | _ => .refuse 500 ⟨5, 5, 4⟩ "Malformed AUTH parameter mailbox"
      | none => .refuse 500 ⟨5, 5, 4⟩ "Malformed AUTH parameter value"
    else .refuse 500 ⟨5, 5, 4⟩ "Unknown MAIL FROM argument"

/-- the `Session.Mail` call and the reply to it -/
def mailCall (s : S) (id : Nat) (frm : Bytes) (opts : MailOpts) : S × Bool :=
  let (r, s) := popMail s
  let s := emit s (.mail id frm opts r)
  match r with
  | .ok =>
    -- (the Go code sets the flag after writing the reply; nothing can observe the order)
    let s := { s with c := { s.c with fromReceived := true } }
    (replyB s 250 ⟨2, 0, 0⟩ ["Roger, accepting mail from <".b ++ printable frm ++ ">".b], false)
  | .panic => (s, true)
  | e => (write s (renderError 451 ⟨4, 0, 0⟩ e), false)

/-- the configuration as the MAIL parameter switch sees it: REQUIRETLS is available only on a connection protected by TLS
    (RFC 8689; it is advertised only there, see `caps`) -/
def effCfg (s : S) : Cfg := { s.cfg with reqtls := s.cfg.reqtls && s.c.tls }

def setBinarymime (s : S) (b : Bool) : S := { s with c := { s.c with binarymime := b } }

def handleMail (s : S) (arg : Bytes) : S × Bool :=
  if s.c.helo.isEmpty then (reply s 502 ⟨5, 5, 1⟩ "Please introduce yourself first.", false)
  else if s.c.bdat.isSome then (reply s 502 ⟨5, 5, 1⟩ "MAIL not allowed during message transfer", false)
  else
    match cutPrefixFold arg "FROM:".b with
    | none => (reply s 501 ⟨5, 5, 2⟩ "Was expecting MAIL arg syntax of FROM:<address>", false)
    | some a =>
      match parseReversePath (trimSpace a) with
      | none => (reply s 501 ⟨5, 5, 2⟩ "Was expecting MAIL arg syntax of FROM:<address>", false)
      | some (frm, rest) =>
        match parseArgs rest with
        | none => (reply s 501 ⟨5, 5, 4⟩ "Unable to parse MAIL ESMTP parameters", false)
        | some args =>
          match mailParams (effCfg s) args {} false with
          | .refuse code enh text => (reply (setBinarymime s false) code enh text, false)
          | .ok (opts, bm) =>
            match s.c.session with
            | none => (setBinarymime s bm, true)          -- nil session: the method call panics
            | some id => mailCall (setBinarymime s bm) id frm opts

/-! ### RCPT -/

def notifyValid (vals : List Bytes) : Bool :=
  let known := vals.all (fun v => v == "NEVER".b || v == "DELAY".b || v == "FAILURE".b || v == "SUCCESS".b)
  let nodup := vals.eraseDups.length == vals.length
  let never := !(vals.contains "NEVER".b) || vals.length == 1
  !vals.isEmpty && known && nodup && never

/-- days since 1970-01-01 of a proleptic Gregorian date -/
def daysFromCivil (y m d : Int) : Int :=
  let y' := if m ≤ 2 then y - 1 else y
  let era := (if y' ≥ 0 then y' else y' - 399) / 400
  let yoe := y' - era * 400
  let mp := (m + 9) % 12
  let doy := (153 * mp + 2) / 5 + d - 1
  let doe := yoe * 365 + yoe / 4 - yoe / 100 + doy
  era * 146097 + doe - 719468

def isLeap (y : Nat) : Bool := (y % 4 == 0 && y % 100 != 0) || y % 400 == 0
def daysIn (y m : Nat) : Nat :=
  if m == 2 then (if isLeap y then 29 else 28)
  else if m == 4 || m == 6 || m == 9 || m == 11 then 30 else 31

def digits? (s : Bytes) : Option Nat := if !s.isEmpty && s.all isDigit then some (s.foldl (fun a b => a * 10 + (b.toNat - 48)) 0) else none

/-- `time.Parse(time.RFC3339, v)` restricted to `YYYY-MM-DDTHH:MM:SS(Z|±HH:MM)` (no fractional
    seconds — generated cases stay inside this form); unix seconds -/
def parseRFC3339 (v : Bytes) : Option Int :=
  if v.length < 20 then none else
  let f (a b : Nat) := digits? ((v.drop a).take (b - a))
  match f 0 4, f 5 7, f 8 10, f 11 13, f 14 16, f 17 19 with
  | some y, some mo, some d, some h, some mi, some sec =>
    if v.getD 4 0 != 45 || v.getD 7 0 != 45 || v.getD 10 0 != 84 || v.getD 13 0 != 58 || v.getD 16 0 != 58 then none
    else if mo < 1 || mo > 12 || d < 1 || d > daysIn y mo || h > 23 || mi > 59 || sec > 59 then none
    else
      let base : Int := daysFromCivil y mo d * 86400 + h * 3600 + mi * 60 + sec
      let tz := v.drop 19
      if tz == [90] then some base
      else if tz.length == 6 && (tz.getD 0 0 == 43 || tz.getD 0 0 == 45) && tz.getD 3 0 == 58 then
        match digits? ((tz.drop 1).take 2), digits? ((tz.drop 4).take 2) with
        | some oh, some om =>
          if oh > 23 || om > 59 then none
          else
            let off : Int := oh * 3600 + om * 60
            some (if tz.getD 0 0 == 43 then base - off else base + off)
        | _, _ => none
      else none
  | _, _, _, _, _, _ => none

def decodeTypedAddress (val : Bytes) : Option (Bytes × Bytes) :=
  match cutByte val 59 with     -- ';'
  | (t, some a) =>
    if t.isEmpty || a.isEmpty then none
    else
      let ty := toUpper t
      if ty == "RFC822".b then
        match decodeXtext a with
        | some d => if isPrintableASCII d then some (ty, d) else none
        | none => none
      else if ty == "UTF-8".b then
        (decodeUTF8AddrXtext a).map (fun d => (ty, d))
      else none
  | _ => none

def rcptParams (cfg : Cfg) : List (Bytes × Bytes) → RcptOpts → POut RcptOpts
  | [], o => .ok o
  | (key, value) :: rest, o =>
    if key == "NOTIFY".b then
      if !cfg.dsn then .refuse 504 ⟨5, 5, 4⟩ "NOTIFY is not implemented"
      else
        let vals := (splitByte value 44).map toUpper
        if notifyValid vals then rcptParams cfg rest { o with notify := vals }
        else .refuse 501 ⟨5, 5, 4⟩ "Malformed NOTIFY parameter value"
    else if key == "ORCPT".b then
      if !cfg.dsn then .refuse 504 ⟨5, 5, 4⟩ "ORCPT is not implemented"
      else
        match decodeTypedAddress value with
        | some (ty, a) =>
          if a.isEmpty then .refuse 501 ⟨5, 5, 4⟩ "Malformed ORCPT parameter value"
          else rcptParams cfg rest { o with orcptType := ty, orcpt := a }
        | none => .refuse 501 ⟨5, 5, 4⟩ "Malformed ORCPT parameter value"
    else if key == "RRVS".b then
      if !cfg.rrvs then .refuse 504 ⟨5, 5, 4⟩ "RRVS is not implemented"
      else
        match parseRFC3339 (cutByte value 59).1 with
        | some t => rcptParams cfg rest { o with rrvs := some t }
        | none => .refuse 501 ⟨5, 5, 4⟩ "Malformed RRVS parameter value"
    else .refuse 500 ⟨5, 5, 4⟩ "Unknown RCPT TO argument"

def handleRcpt (s : S) (arg : Bytes) : S × Bool :=
  if !s.c.fromReceived then (reply s 502 ⟨5, 5, 1⟩ "Missing MAIL FROM command.", false)
  else if s.c.bdat.isSome then (reply s 502 ⟨5, 5, 1⟩ "RCPT not allowed during message transfer", false)
  else
    match cutPrefixFold arg "TO:".b with
    | none => (reply s 501 ⟨5, 5, 2⟩ "Was expecting RCPT arg syntax of TO:<address>", false)
    | some a =>
      match parsePath (trimSpace a) with
      | none => (reply s 501 ⟨5, 5, 2⟩ "Was expecting RCPT arg syntax of TO:<address>", false)
      | some (rcpt, rest) =>
        if s.cfg.maxRcpt > 0 && s.c.recipients.length ≥ s.cfg.maxRcpt then
          (replyB s 452 ⟨4, 5, 3⟩ ["Maximum limit of ".b ++ natToDec s.cfg.maxRcpt ++ " recipients reached".b], false)
        else
          match parseArgs rest with
          | none => (reply s 501 ⟨5, 5, 4⟩ "Unable to parse RCPT ESMTP parameters", false)
          | some args =>
            match rcptParams s.cfg args {} with
            | .refuse code enh text => (reply s code enh text, false)
            | .ok opts =>
              match s.c.session with
              | none => (s, true)
              | some id =>
                let (r, s) := popRcpt s
                let s := emit s (.rcpt id rcpt opts r)
                match r with
                | .ok =>
                  let s := { s with c := { s.c with recipients := s.c.recipients ++ [rcpt] } }
                  (replyB s 250 ⟨2, 0, 0⟩ ["I'll make sure <".b ++ printable rcpt ++ "> gets this".b], false)
                | .panic => (s, true)
                | e => (write s (renderError 451 ⟨4, 0, 0⟩ e), false)


/-! ### base64 (`encoding/base64.StdEncoding`, modelled) -/

def b64Val (b : Byte) : Option Nat :=
  let x := b.toNat
  if 65 ≤ x && x ≤ 90 then some (x - 65)
  else if 97 ≤ x && x ≤ 122 then some (x - 71)
  else if 48 ≤ x && x ≤ 57 then some (x + 4)
  else if x == 43 then some 62
  else if x == 47 then some 63
  else none

def b64DecodeAux : Nat → Bytes → Option Bytes
  | 0, _ => none
  | _ + 1, [] => some []
  | fuel + 1, a :: b :: c :: d :: t =>
    match b64Val a, b64Val b with
    | some x, some y =>
      if c == 61 then
        if d == 61 && t.isEmpty then some [UInt8.ofNat ((x * 64 + y) / 16)] else none
      else match b64Val c with
        | none => none
        | some z =>
          if d == 61 then
            if t.isEmpty then
              let v := (x * 64 + y) * 64 + z
              some [UInt8.ofNat (v / 1024), UInt8.ofNat ((v / 4) % 256)]
            else none
          else match b64Val d with
            | none => none
            | some u =>
              let v := ((x * 64 + y) * 64 + z) * 64 + u
              (b64DecodeAux fuel t).map (fun r =>
                UInt8.ofNat (v / 65536) :: UInt8.ofNat ((v / 256) % 256) :: UInt8.ofNat (v % 256) :: r)
    | _, _ => none
  | _ + 1, _ => none

/-- `base64.StdEncoding.DecodeString` (CR and LF are skipped, padding is required) -/
def b64Decode (s : Bytes) : Option Bytes :=
  let s' := s.filter (fun b => b != CR && b != LF)
  b64DecodeAux (s'.length + 1) s'

def b64Char (n : Nat) : Byte :=
  UInt8.ofNat (if n < 26 then 65 + n else if n < 52 then 71 + n else if n < 62 then n - 4 else if n == 62 then 43 else 47)

def b64Encode : Bytes → Bytes
  | [] => []
  | [a] =>
    let v := a.toNat
    [b64Char (v / 4), b64Char ((v % 4) * 16), 61, 61]
  | [a, b] =>
    let v := a.toNat * 256 + b.toNat
    [b64Char (v / 1024), b64Char ((v / 16) % 64), b64Char ((v % 16) * 4), 61]
  | a :: b :: c :: t =>
    let v := (a.toNat * 256 + b.toNat) * 256 + c.toNat
    b64Char (v / 262144) :: b64Char ((v / 4096) % 64) :: b64Char ((v / 64) % 64) :: b64Char (v % 64) :: b64Encode t

/-- `decodeSASLResponse` -/
def decodeSASLResponse (s : Bytes) : Option Bytes := if s == [61] then some [] else b64Decode s

/-! ### AUTH -/

def connReadLine (s : S) : S × Except RErr Bytes :=
  let (w, r) := Wire.readLine s.w
  ({ s with w := w }, r)

/-- the challenge/response loop of `handleAuth` -/
def saslLoop : Nat → S → Option Bytes → S × Bool
  | 0, s, _ => (s, false)
  | fuel + 1, s, response =>
    let (st, s) := popSasl s
    let s := emit s (.sasl response st.challenge st.done st.res)
    match st.res with
    | .panic => (s, true)
    | .ok =>
      if st.done then
        let s := { s with c := { s.c with didAuth := true } }
        (reply s 235 ⟨2, 0, 0⟩ "Authentication succeeded", false)
      else
        let s := replyB s 334 noEnh [if st.challenge.isEmpty then [] else b64Encode st.challenge]
        match connReadLine s with
        | (s, .error _) => (s, false)
        | (s, .ok line) =>
          if line == [42] then (reply s 501 ⟨5, 0, 0⟩ "Negotiation cancelled", false)
          else match decodeSASLResponse line with
            | none => (reply s 454 ⟨4, 7, 0⟩ "Invalid base64 data", false)
            | some resp => saslLoop fuel s (some resp)
    | e => (write s (renderError 454 ⟨4, 7, 0⟩ e), false)

def handleAuth (s : S) (arg : Bytes) : S × Bool :=
  if s.c.helo.isEmpty then (reply s 502 ⟨5, 5, 1⟩ "Please introduce yourself first.", false)
  else if s.c.didAuth then (reply s 503 ⟨5, 5, 1⟩ "Already authenticated", false)
  else
    match fields arg with
    | [] => (reply s 502 ⟨5, 5, 4⟩ "Missing parameter", false)
    | mech0 :: more =>
      if !authAllowed s then (reply s 523 ⟨5, 7, 10⟩ "TLS is required", false)
      else
        let mechanism := toUpper mech0
        let ir? : Option (Option Bytes) := match more with
          | [] => some none
          | p :: _ => (decodeSASLResponse p).map some
        match ir? with
        | none => (reply s 454 ⟨4, 7, 0⟩ "Invalid base64 data", false)
        | some ir =>
          match s.c.session with
          | none => (s, true)
          | some id =>
            if !s.cfg.authSess then
              (write s (renderError 454 ⟨4, 7, 0⟩ (.se 504 ⟨5, 7, 4⟩ "Unsupported authentication mechanism".b)), false)
            else
              let (r, s) := popAuth s
              let s := emit s (.authMech id mechanism r)
              match r with
              | .ok => saslLoop (s.w.segs.length + s.w.buf.length + 4) s ir
              | .panic => (s, true)
              | e => (write s (renderError 454 ⟨4, 7, 0⟩ e), false)

/-! ### STARTTLS -/

/-- `c.conn = tlsConn; c.init()`: a fresh limiter and a fresh bufio over the TLS stream — whatever
    plaintext was buffered is gone -/
def switchWire (s : S) : S :=
  { s with w := { (s.tlsW.getD {}) with limit := s.cfg.maxLine, cur := 0, tripped := false, buf := [], err := none },
           tlsW := none, c := { s.c with tls := true } }

def forgetGreeting (s : S) : S := { s with c := { s.c with helo := [], didAuth := false } }

/-- what a successful handshake is followed by: new wire, Logout of the plaintext session, all state reset -/
def tlsUpgrade (s : S) : S := resetConn (forgetGreeting (logoutSess (switchWire s)))

def handleStartTLS (s : S) : S :=
  if s.c.tls then reply s 502 ⟨5, 5, 1⟩ "Already running in TLS"
  else if !s.cfg.tlsAvail then reply s 502 ⟨5, 5, 1⟩ "TLS not supported"
  else
    let s := reply s 220 ⟨2, 0, 0⟩ "Ready to start TLS"
    let (ok, s) := popHs s
    let s := emit s (.tlsStart ok)
    if !ok then reply s 550 ⟨5, 0, 0⟩ "Handshake error"
    else tlsUpgrade s

/-! ### DATA -/

def rdEndOf (res : DataReader.Res) (e : Option RErr) : RdEnd :=
  match res with
  | .more => .none
  | .eof => .eof
  | .tooLarge => .tooLarge
  | .ueof =>
    match e with
    | some .tooLong => .tooLong
    | some .timeout => .timeout
    | some .closed => .closed
    | _ => .ueof

/-- the size of the backend's next `Read`: `rsz`, or what is still missing of `want` -/
def nextReadSize (want : Option Nat) (rsz got : Nat) : Nat :=
  match want with
  | none => rsz
  | some n => min rsz (n - got)

/-- the scripted backend consumes its DATA reader: up to `want` octets, `rsz` at a time -/
def backendRead : Nat → DataReader.DR → W → Option Nat → Nat → Bytes → DataReader.DR × W × Bytes × RdEnd
  | 0, r, w, _, _, acc => (r, w, acc, .none)
  | fuel + 1, r, w, want, rsz, acc =>
    let k := nextReadSize want rsz acc.length
    if k == 0 then (r, w, acc, .none)
    else
      let (r', w', out, res, e) := Wire.dataRead (Wire.fuelOf w) r w k []
      match res with
      | .more => backendRead fuel r' w' want rsz (acc ++ out)
      | _ => (r', w', acc ++ out, rdEndOf res e)

/-- `io.Copy(ioutil.Discard, r)` with the limit off: read to EOF or to the first error -/
def drain : Nat → DataReader.DR → W → W
  | 0, _, w => w
  | fuel + 1, r, w =>
    let (r', w', _, res, _) := Wire.dataRead (Wire.fuelOf w) { r with limited := false } w 8192 []
    match res with
    | .more => drain fuel r' w'
    | _ => w'

def wireFuel (w : W) : Nat := Wire.fuelOf w + 4

def newDataReader (s : S) : DataReader.DR :=
  if s.cfg.maxMsg > 0 then { limited := true, n := s.cfg.maxMsg } else {}

/-- begin a `Data`/`LMTPData` call: allocate its record -/
def beginData (s : S) (id : Nat) (dec : DataDec) : S × Nat :=
  let k := s.drecs.length
  ({ s with drecs := s.drecs ++ [{ k := k, sess := id }], decs := s.decs ++ [some dec] }, k)

/-! #### LMTP status collection (`statusCollector`) -/

/-- `fillRemaining(err)`, then read the channels in RCPT order: the i-th recipient, being the j-th
    occurrence of its address, gets the j-th status queued for that address, else `fill` -/
def collect (rcpts : List Bytes) (q : List (Bytes × BRes)) (fill : BRes) : List (Bytes × BRes) :=
  let rec go : List Bytes → List Bytes → List (Bytes × BRes)
    | [], _ => []
    | a :: rest, seen =>
      let j := countOf a seen
      let mine := (q.filter (·.1 == a)).map (·.2)
      (a, (mine[j]?).getD fill) :: go rest (seen ++ [a])
  go rcpts []

def errPanic : BRes := .se 421 ⟨4, 0, 0⟩ "Internal server error".b

def writeLmtpStatuses (s : S) (sts : List (Bytes × BRes)) : S :=
  sts.foldl (fun s (a, r) =>
    let (code, enh, msg) := dataStatus r
    replyB s code enh ["<".b ++ printable a ++ "> ".b ++ msg]) s

def setW (s : S) (w : W) : S := { s with w := w }

/-- what follows the backend's return in plain SMTP: one final reply, then the transaction is reset -/
def dataFinishSmtp (s : S) (k : Nat) (r1 : DataReader.DR) (octets : Bytes) (e : RdEnd) (dec : DataDec) : S × Bool :=
  let ret := resolveRet dec.ret e
  let s := setDrec s k (fun d => { d with octets := octets, rdEnd := e, ret := ret, finished := true })
  if ret == .panic then (resetConn s, true)     -- deferred reset runs, then handle recovers
  else
    let (code, enh, msg) := dataStatus ret
    let s := setW s (drain (wireFuel s.w) r1 s.w)
    (resetConn (replyB s code enh [msg]), false)

/-- LMTP with a plain backend: one status for every recipient -/
def dataFinishLmtpPlain (s : S) (k : Nat) (r1 : DataReader.DR) (octets : Bytes) (e : RdEnd) (dec : DataDec) : S × Bool :=
  let ret := resolveRet dec.ret e
  let s := setDrec s k (fun d => { d with octets := octets, rdEnd := e, ret := ret, finished := true })
  if ret == .panic then (resetConn s, true)
  else
    let s := setW s (drain (wireFuel s.w) r1 s.w)
    let s := writeLmtpStatuses s (s.c.recipients.map (fun a => (a, ret)))
    (resetConn s, false)

/-- LMTPSession: statuses set by the backend, the rest filled with its return value -/
def dataFinishLmtpSess (s : S) (k : Nat) (r1 : DataReader.DR) (octets : Bytes) (e : RdEnd) (dec : DataDec) : S × Bool :=
  let (q, okCalls) := applyStatuses s.c.recipients dec.statuses []
  let ret := if okCalls then resolveRet dec.ret e else .panic
  let s := setDrec s k (fun d => { d with octets := octets, rdEnd := e, ret := ret, finished := true })
  if ret == .panic then
    -- recovered in the delivery goroutine: 421 for whoever has no status, log, close
    let s := emit s .panicLog
    let s := writeLmtpStatuses s (collect s.c.recipients q errPanic)
    (resetConn (closeConn s), false)
  else
    let s := setW s (drain (wireFuel s.w) r1 s.w)
    let s := writeLmtpStatuses s (collect s.c.recipients q ret)
    (resetConn s, false)

/-- the synchronous `Session.Data` / `LMTPData` call of the DATA command -/
def dataSync (s : S) (id : Nat) : S × Bool :=
  let (dec, s) := popData s
  let (s, k) := beginData s id dec
  let s := emit s (.dataBegin id k)
  let r0 := newDataReader s
  let (r1, w1, octets, e) := backendRead (wireFuel s.w) r0 s.w dec.want dec.rsz []
  let s := setW s w1
  if !s.cfg.lmtp then dataFinishSmtp s k r1 octets e dec
  else if !s.cfg.lmtpSess then dataFinishLmtpPlain s k r1 octets e dec
  else dataFinishLmtpSess s k r1 octets e dec

/-- returns the state and whether a panic escapes to `handle` -/
def handleData (s : S) (arg : Bytes) : S × Bool :=
  if !arg.isEmpty then (reply s 501 ⟨5, 5, 4⟩ "DATA command should not have any arguments", false)
  else if s.c.bdat.isSome then (reply s 502 ⟨5, 5, 1⟩ "DATA not allowed during message transfer", false)
  else if s.c.binarymime then (reply s 502 ⟨5, 5, 1⟩ "DATA not allowed for BINARYMIME messages", false)
  else if !s.c.fromReceived || s.c.recipients.isEmpty then (reply s 502 ⟨5, 5, 1⟩ "Missing RCPT TO command.", false)
  else
    let s := reply s 354 noEnh "Go ahead. End your data with <CR><LF>.<CR><LF>"
    match s.c.session with
    | none => (resetConn s, true)
    | some id => dataSync s id

/-! ### BDAT -/

/-- `bufio.Reader.Read(p)` with `len(p) = m > 0` -/
def bufRead (w : W) (m : Nat) : W × Except RErr Bytes :=
  if w.buf.isEmpty then
    match w.err with
    | some e => ({ w with err := none }, .error e)
    | none =>
      if m ≥ Wire.bufSize then Wire.limRead w m
      else
        match Wire.limRead w Wire.bufSize with
        | (w1, .error e) => (w1, .error e)
        | (w1, .ok bs) => ({ w1 with buf := bs.drop m }, .ok (bs.take m))
  else ({ w with buf := w.buf.drop m }, .ok (w.buf.take m))

/-- `io.Copy(ioutil.Discard, io.LimitReader(c.text.R, n))`: `(wire, octets not read because the
    source failed)` -/
def discardN : Nat → W → Nat → W
  | 0, w, _ => w
  | fuel + 1, w, n =>
    if n == 0 then w
    else match bufRead w (min 8192 n) with
      | (w1, .ok bs) => discardN fuel w1 (n - bs.length)
      | (w1, .error _) => w1

/-- `io.Copy(c.bdatPipe, chunk)`: copy up to `n` octets into delivery `k`, `cap` at a time.
    Result: state, octets of the chunk still unread, and how the copy ended. -/
inductive CopyEnd | done | short | srcErr (e : RErr) | pipeErr
deriving Repr

def copyChunk : Nat → S → Nat → Nat → Nat → S × Nat × CopyEnd
  | 0, s, _, n, _ => (s, n, .done)
  | fuel + 1, s, k, n, cap =>
    if n == 0 then (s, 0, .done)
    else match bufRead s.w (min cap n) with
      | (w1, .error .eof) => ({ s with w := w1 }, n, .short)
      | (w1, .error e) => ({ s with w := w1 }, n, .srcErr e)
      | (w1, .ok bs) =>
        let (s1, okAll) := delivWrite { s with w := w1 } k bs
        if okAll then copyChunk fuel s1 k (n - bs.length) cap
        else (s1, n - bs.length, .pipeErr)

def setLimit (s : S) (n : Nat) : S := setW s { s.w with limit := n }

/-- `Conn.resumeLineLimit`: the limit comes back after a chunk and starts afresh; what is buffered behind the chunk was read while the
    limit was lifted, and `readLine` checks the length of every line it hands out -/
def armLimit (s : S) : S := setW s (Wire.resume s.w s.cfg.maxLine [])

/-- skip the payload of a refused BDAT command (`discardChunk`), the line limit lifted meanwhile -/
def discardChunkN (s : S) (size? : Option Nat) : S :=
  match size? with
  | some n =>
    let w := discardN (wireFuel s.w) { s.w with limit := 0 } n
    setW s (Wire.resume w s.cfg.maxLine [])
  | none => s

def setBdatStatus (s : S) : S :=
  if s.c.bdatStatus.isNone && s.cfg.lmtp then { s with c := { s.c with bdatStatus := some s.c.recipients } } else s

def setBdat (s : S) (k : Nat) : S := { s with c := { s.c with bdat := some k } }

/-- start the delivery goroutine of a chunked transfer: its record, the `Data` call, `c.bdatPipe` -/
def startDelivery (s : S) (dec : DataDec) : S × Nat :=
  let id := s.c.session.getD 0
  let k := (beginData s id dec).2
  (setBdat (emit (beginData s id dec).1 (.dataBegin id k)) k, k)

/-- the first chunk of a transfer starts the delivery goroutine; later chunks find it running -/
def bdatBegin (s : S) : S × Nat :=
  match s.c.bdat with
  | some k => (s, k)
  | none =>
    let (dec, s) := popData s
    let (s, k) := startDelivery s dec
    -- a backend that wants nothing returns at once
    let s := if dec.want == some 0 then delivFinish s k .none else s
    (s, k)

/-- the reply to a chunk that could not be copied.  In LMTP a LAST chunk is answered with one reply per accepted recipient
    all the same (RFC 2033 4.2): if the delivery has ended, the statuses it set stand and the other recipients get the
    error (`fillRemaining(err)`; a backend without per-recipient support has given every recipient its result); if it
    is still running (the source failed), every recipient gets the error. -/
def bdatFailReplies (s : S) (k : Nat) (last : Bool) (err : BRes) : S :=
  if s.cfg.lmtp && last then
    let rcpts := s.c.recipients
    if delivRunning s k then writeLmtpStatuses s (rcpts.map (fun a => (a, err)))
    else
      let r := delivRet s k
      let isPanic := r == .panic
      if !s.cfg.lmtpSess then writeLmtpStatuses s (rcpts.map (fun a => (a, if isPanic then errPanic else r)))
      else
        let (q, okCalls) := applyStatuses ((s.c.bdatStatus).getD rcpts) (delivDec s k).statuses []
        writeLmtpStatuses s (collect rcpts q (if okCalls && !isPanic then err else errPanic))
  else
    let (code, enh, msg) := dataStatus err
    replyB s code enh [msg]

/-- a chunk could not be copied: skip what is left of it, report, end the transaction -/
def bdatFail (s : S) (k left : Nat) (last : Bool) (err : BRes) : S × Bool :=
  let s := setW s (discardN (wireFuel s.w) s.w left)
  let s := bdatFailReplies s k last err
  let s := if err == errPanic then closeConn s else s
  let s := resetConn s
  (armLimit s, false)

/-- the LAST chunk has been copied: `bdatPipe.Close()`, the verdict(s), the end of the transaction -/
def bdatFinal (s : S) (k : Nat) : S × Bool :=
  let s := if delivRunning s k then delivFinish s k .eof else s
  let r := delivRet s k
  let rcpts := s.c.recipients
  let isPanic := r == .panic
  let res := if isPanic then errPanic else r
  let s :=
    if s.cfg.lmtp then
      if !s.cfg.lmtpSess then writeLmtpStatuses s (rcpts.map (fun a => (a, res)))
      else
        let (q, okCalls) := applyStatuses ((s.c.bdatStatus).getD rcpts) (delivDec s k).statuses []
        if okCalls && !isPanic then writeLmtpStatuses s (collect rcpts q res)
        else writeLmtpStatuses s (collect rcpts q errPanic)
    else
      let (code, enh, msg) := dataStatus res
      replyB s code enh [msg]
  if isPanic then (closeConn s, false) else (resetConn s, false)

def addBytesReceived (s : S) (n : Nat) : S := { s with c := { s.c with bytesReceived := s.c.bytesReceived + n } }

/-- a chunk has been copied completely -/
def bdatDone (s : S) (k size : Nat) (last : Bool) : S × Bool :=
  -- the chunk has been read: what follows is a command line again
  let s := armLimit (addBytesReceived s size)
  if !last then (reply s 250 ⟨2, 0, 0⟩ "Continue", false)
  else bdatFinal s k

/-- what follows the copy of a chunk, by the way it ended -/
def bdatAfterCopy (s : S) (k size left : Nat) (last : Bool) (ce : CopyEnd) : S × Bool :=
  match ce with
  | .short => bdatFail s k left last (.er "unexpected EOF".b)
  | .srcErr e => bdatFail s k left last (.er (match e with
      | .tooLong => "smtp: too long a line in input stream".b
      | .timeout => "i/o timeout".b
      | .closed => "use of closed network connection".b
      | .eof => "EOF".b))
  | .pipeErr =>
    let r := delivRet s k
    (if r == .panic then bdatFail s k left last errPanic else bdatFail s k left last (pipeWriteErr r))
  | .done => bdatDone s k size last

/-- an accepted BDAT command: start or continue the transfer, copy the chunk -/
def bdatChunk (s : S) (size : Nat) (last : Bool) : S × Bool :=
  let (s, k) := bdatBegin (setBdatStatus s)
  let s := setLimit s 0
  let (s, left, ce) := copyChunk (wireFuel s.w) s k size (min 32768 (max size 1))
  bdatAfterCopy s k size left last ce

/-- a second argument that is not `LAST` -/
def bdatLastBad (more : List Bytes) : Bool :=
  match more with
  | [t] => !equalFold t "LAST".b
  | _ => false

def handleBdat (s : S) (arg : Bytes) : S × Bool :=
  match fields arg with
  | [] => (reply s 501 ⟨5, 5, 4⟩ "Missing chunk size argument", false)
  | a0 :: more =>
    let size? := parseUintDec a0 32
    if more.length > 1 then (discardChunkN (reply s 501 ⟨5, 5, 4⟩ "Too many arguments") size?, false)
    else if !s.c.fromReceived || s.c.recipients.isEmpty then
      (discardChunkN (reply s 502 ⟨5, 5, 1⟩ "Missing RCPT TO command.") size?, false)
    else
      if bdatLastBad more then (discardChunkN (reply s 501 ⟨5, 5, 4⟩ "Unknown BDAT argument") size?, false)
      else
        let last := more.length == 1
        match size? with
        | none => (reply s 501 ⟨5, 5, 4⟩ "Malformed size argument", false)
        | some size =>
          if s.cfg.maxMsg != 0 && s.c.bytesReceived + size > s.cfg.maxMsg then
            (resetConn (discardChunkN (reply s 552 ⟨5, 3, 4⟩ "Max message size exceeded") size?), false)
          else bdatChunk s size last

/-! ### dispatch (`Conn.handle`) and the command loop (`Server.handleConn`) -/

/-- `defer recover()` in `Conn.handle`: a panic in a handler is answered 421, the connection closed, the panic logged -/
def recoverPanic (p : S × Bool) : S :=
  if p.2 then emit (closeConn (reply p.1 421 ⟨4, 0, 0⟩ "Internal server error")) .panicLog else p.1

/-- the greeting commands: the verb must fit the server's mode -/
def dispatchGreet (s : S) (cmd arg : Bytes) : S :=
  if s.cfg.lmtp && !(cmd == "LHLO".b) then reply s 500 ⟨5, 5, 1⟩ "This is a LMTP server, use LHLO"
  else if !s.cfg.lmtp && cmd == "LHLO".b then reply s 500 ⟨5, 5, 1⟩ "This is not a LMTP server"
  else recoverPanic (handleGreet s (cmd == "LHLO".b || cmd == "EHLO".b) arg)

inductive Verb | unimpl | greet | mail | rcpt | vrfy | noop | rset | bdat | data | quit | auth | starttls | unknown
deriving Repr, DecidableEq

/-- which branch of the switch an (upper-cased) verb selects -/
def verbOf (cmd : Bytes) : Verb :=
  if cmd == "SEND".b || cmd == "SOML".b || cmd == "SAML".b || cmd == "EXPN".b || cmd == "HELP".b || cmd == "TURN".b then .unimpl
  else if cmd == "HELO".b || cmd == "EHLO".b || cmd == "LHLO".b then .greet
  else if cmd == "MAIL".b then .mail
  else if cmd == "RCPT".b then .rcpt
  else if cmd == "VRFY".b then .vrfy
  else if cmd == "NOOP".b then .noop
  else if cmd == "RSET".b then .rset
  else if cmd == "BDAT".b then .bdat
  else if cmd == "DATA".b then .data
  else if cmd == "QUIT".b then .quit
  else if cmd == "AUTH".b then .auth
  else if cmd == "STARTTLS".b then .starttls
  else .unknown

/-- the switch over the (upper-cased) verb -/
def dispatch (s : S) (cmd arg : Bytes) : S :=
  match verbOf cmd with
  | .unimpl => replyB s 502 ⟨5, 5, 1⟩ [cmd ++ " command not implemented".b]
  | .greet => dispatchGreet s cmd arg
  | .mail => recoverPanic (handleMail s arg)
  | .rcpt => recoverPanic (handleRcpt s arg)
  | .vrfy => reply s 252 ⟨2, 5, 0⟩ "Cannot VRFY user, but will accept message"
  | .noop => reply s 250 ⟨2, 0, 0⟩ "I have successfully done nothing"
  | .rset => reply (resetConn s) 250 ⟨2, 0, 0⟩ "Session reset"
  | .bdat => recoverPanic (handleBdat s arg)
  | .data => recoverPanic (handleData s arg)
  | .quit => closeConn (reply s 221 ⟨2, 0, 0⟩ "Bye")
  | .auth => recoverPanic (handleAuth s arg)
  | .starttls => handleStartTLS s
  | .unknown => protocolErrorB s 500 ⟨5, 5, 2⟩ ("Syntax errors, ".b ++ printable cmd ++ " command unrecognized".b)

def handle (s : S) (cmd0 arg : Bytes) : S :=
  if cmd0.isEmpty then protocolError s 500 ⟨5, 5, 2⟩ "Error: bad syntax"
  else dispatch s (toUpper cmd0) arg

def greet (s : S) : S :=
  replyB s 220 noEnh [s.cfg.domain ++ (if s.cfg.lmtp then " LMTP Service Ready".b else " ESMTP Service Ready".b)]

def loop : Nat → S → S
  | 0, s => s
  | fuel + 1, s =>
    if s.c.closed then s
    else
      match connReadLine s with
      | (s, .ok line) =>
        let s := emit s (.cmd line)
        match parseCmd line with
        | none => loop fuel (protocolError s 501 ⟨5, 5, 2⟩ "Bad command")
        | some (cmd, arg) => loop fuel (handle s cmd arg)
      | (s, .error .eof) => s
      | (s, .error .closed) => s
      | (s, .error .tooLong) => reply s 500 ⟨5, 4, 0⟩ "Too long line, closing connection"
      | (s, .error .timeout) => reply s 421 ⟨4, 4, 2⟩ "Idle timeout, bye bye"

def totalFuel (s : S) : Nat :=
  wireFuel s.w + (match s.tlsW with | some w => wireFuel w | none => 0) + 8

/-- the whole connection: greeting, command loop, deferred `Close` -/
def serve (s : S) : S := closeConn (loop (totalFuel s) (greet s))

end SmtpV.Server
