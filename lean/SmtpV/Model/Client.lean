import SmtpV.Model.Text
import SmtpV.Model.Xtext
import SmtpV.Spec.Events
import SmtpV.Model.DotWriter
import SmtpV.Model.Server
/-!
Model of the client (client.go): reply parsing (`textproto.Reader.ReadResponse`, `toSMTPErr`,
`parseEnhancedCode`), rendering of MAIL/RCPT/HELO/VRFY lines, and the call-level state machine
(`hello`, `Mail`, `Rcpt`, `Data`/`LMTPData` + `Close`, `Auth`, `Reset`, `Quit`) against a scripted peer.
-/
namespace SmtpV.Client
open SmtpV SmtpV.Text SmtpV.Xtext SmtpV.Spec

/-! ### numbers -/

/-- `strconv.Atoi`: optional sign, at least one digit, digits only, int64 range -/
def atoi (s : Bytes) : Option Int :=
  let (neg, ds) := match s with
    | 45 :: t => (true, t)
    | 43 :: t => (false, t)
    | _ => (false, s)
  if ds.isEmpty || !ds.all isDigit then none
  else
    let v : Nat := ds.foldl (fun a b => a * 10 + (b.toNat - 48)) 0
    if neg then (if v ≤ 9223372036854775808 then some (-(v : Int)) else none)
    else (if v ≤ 9223372036854775807 then some (v : Int) else none)

/-- `parseEnhancedCode`: exactly three `.`-separated parts, each an `Atoi` integer -/
def parseEnhancedCode (s : Bytes) : Option Enh :=
  match splitByte s 46 with
  | [a, b, c] =>
    match atoi a, atoi b, atoi c with
    | some x, some y, some z => some ⟨x, y, z⟩
    | _, _, _ => none
  | _ => none

/-- `strings.ReplaceAll(s, old, new)` for non-empty `old` -/
def replaceAll (old new : Bytes) : Nat → Bytes → Bytes
  | 0, s => s
  | _ + 1, [] => []
  | fuel + 1, c :: t =>
    if old.isPrefixOf (c :: t) then new ++ replaceAll old new fuel ((c :: t).drop old.length)
    else c :: replaceAll old new fuel t

structure SErr where
  code : Nat
  enh : Enh
  msg : Bytes
deriving DecidableEq, Repr, Inhabited

/-- `toSMTPErr(&textproto.Error{code, msg})` -/
def toSMTPErr (code : Nat) (msg : Bytes) : SErr :=
  match cutByte msg 32 with
  | (first, some rest) =>
    match parseEnhancedCode first with
    | some e => { code := code, enh := e, msg := replaceAll ([10] ++ first ++ [32]) [10] (rest.length + 1) rest }
    | none => { code := code, enh := ⟨0, 0, 0⟩, msg := msg }
  | (_, none) => { code := code, enh := ⟨0, 0, 0⟩, msg := msg }

/-! ### `textproto.Reader.ReadResponse` over already split lines -/

/-- `parseCodeLine(line, 0)`: `(code, continued, message)` -/
def parseCodeLine (line : Bytes) : Option (Nat × Bool × Bytes) :=
  match line with
  | a :: b :: c :: sep :: msg =>
    if (sep == 32 || sep == 45) && isDigit a && isDigit b && isDigit c &&
        (a.toNat - 48) * 100 + (b.toNat - 48) * 10 + (c.toNat - 48) ≥ 100 then
      some ((a.toNat - 48) * 100 + (b.toNat - 48) * 10 + (c.toNat - 48), sep == 45, msg)
    else none
  | _ => none

def codeMatches (expect code : Nat) : Bool :=
  !((1 ≤ expect && expect < 10 && code / 100 != expect) || (10 ≤ expect && expect < 100 && code / 10 != expect) ||
    (100 ≤ expect && expect < 1000 && code != expect))

inductive RR
  | ok (code : Nat) (msg : Bytes)          -- expected reply
  | smtpErr (e : SErr)                     -- unexpected code: converted by `toSMTPErr`
  | proto                                  -- malformed reply (textproto.ProtocolError)
  | io                                     -- the peer's lines ran out (EOF / timeout)
deriving DecidableEq, Repr, Inhabited

/-- continuation lines: a line that does not parse or changes code is appended raw and reading goes on -/
def readCont (code : Nat) : List Bytes → Bytes → Option (Bytes × List Bytes)
  | [], _ => none
  | l :: rest, msg =>
    match parseCodeLine l with
    | some (c2, cont, more) =>
      if c2 != code then readCont code rest (msg ++ [10] ++ trimRightCRLF l)
      else if cont then readCont code rest (msg ++ [10] ++ more)
      else some (msg ++ [10] ++ more, rest)
    | none => readCont code rest (msg ++ [10] ++ trimRightCRLF l)

/-- `Client.readResponse(expect)`: the result and the peer lines left -/
def readResponse (expect : Nat) (lines : List Bytes) : RR × List Bytes :=
  match lines with
  | [] => (.io, [])
  | l :: rest =>
    match parseCodeLine l with
    | none => (.proto, rest)
    | some (code, cont, msg) =>
      if !cont then
        (if codeMatches expect code then .ok code msg else .smtpErr (toSMTPErr code msg), rest)
      else
        match readCont code rest msg with
        | none => (.io, [])
        | some (full, rest') =>
          (if codeMatches expect code then .ok code full else .smtpErr (toSMTPErr code full), rest')

/-! ### command lines -/

/-- `validateLine` -/
def validLine (s : Bytes) : Bool := !(containsByte s 10 || containsByte s 13)

structure MailOptions where
  body : Bytes := []
  size : Int := 0
  requireTLS : Bool := false
  utf8 : Bool := false
  ret : Bytes := []
  envid : Bytes := []
  auth : Option Bytes := none
deriving DecidableEq, Repr, Inhabited

structure RcptOptions where
  notify : List Bytes := []
  orcptType : Bytes := []
  orcpt : Bytes := []
  rrvs : Option (Int × Int) := none     -- (unix seconds, zone offset in seconds east of UTC) of the `time.Time`
deriving DecidableEq, Repr, Inhabited

/-- civil date from days since 1970-01-01 (proleptic Gregorian) -/
def civilFromDays (z0 : Int) : Int × Int × Int :=
  let z := z0 + 719468
  let era := (if z ≥ 0 then z else z - 146096) / 146097
  let doe := z - era * 146097
  let yoe := (doe - doe / 1460 + doe / 36524 - doe / 146096) / 365
  let y := yoe + era * 400
  let doy := doe - (365 * yoe + yoe / 4 - yoe / 100)
  let mp := (5 * doy + 2) / 153
  let d := doy - (153 * mp + 2) / 5 + 1
  let m := if mp < 10 then mp + 3 else mp - 9
  (if m ≤ 2 then y + 1 else y, m, d)

/-- decimal, left-padded with zeros to `w` digits -/
def padDec (n : Int) (w : Nat) : Bytes :=
  let d := natToDec n.toNat
  List.replicate (w - d.length) 48 ++ d

/-- the zone suffix: `Z` for UTC, else `+hh:mm` / `-hh:mm` -/
def zoneText (off : Int) : Bytes :=
  if off == 0 then [90]
  else (if off < 0 then [45] else [43]) ++ padDec ((off.natAbs : Int) / 3600) 2 ++ [58] ++ padDec (((off.natAbs : Int) % 3600) / 60) 2

/-- `t.Format(time.RFC3339)` for years 0..9999 and whole-minute zone offsets -/
def formatRFC3339 (unix : Int) (off : Int := 0) : Bytes :=
  let loc := unix + off
  let days := loc.fdiv 86400
  let secs := loc - days * 86400
  let c := civilFromDays days
  padDec c.1 4 ++ [45] ++ padDec c.2.1 2 ++ [45] ++ padDec c.2.2 2 ++ [84] ++ padDec (secs / 3600) 2 ++ [58] ++
    padDec ((secs % 3600) / 60) 2 ++ [58] ++ padDec (secs % 60) 2 ++ zoneText off

def hasExt (ext : List (Bytes × Bytes)) (k : String) : Bool := ext.any (·.1 == k.b)

/-! Each parameter is rendered by its own small function: `some piece` (possibly empty) or `none` for a local
error.  All local errors look the same from outside (an error, nothing written), so the order in which Go
checks them does not matter here. -/

/-- `BODY=`: the value given (default 8BITMIME); 7BIT/8BITMIME need 8BITMIME offered (else dropped), BINARYMIME needs
    BINARYMIME offered (else an error); anything else is an error -/
def bodyParam (ext : List (Bytes × Bytes)) (o : Option MailOptions) : Option Bytes :=
  let body : Bytes := match o with | some o => if o.body.isEmpty then "8BITMIME".b else o.body | none => "8BITMIME".b
  if body == "7BIT".b then some (if hasExt ext "8BITMIME" then " BODY=7BIT".b else [])
  else if body == "8BITMIME".b then some (if hasExt ext "8BITMIME" then " BODY=8BITMIME".b else [])
  else if body == "BINARYMIME".b then (if hasExt ext "BINARYMIME" then some " BODY=BINARYMIME".b else none)
  else none

def sizeParam (ext : List (Bytes × Bytes)) (o : MailOptions) : Bytes :=
  if hasExt ext "SIZE" && o.size != 0 then " SIZE=".b ++ intToDec o.size else []

def requireTLSParam (ext : List (Bytes × Bytes)) (o : MailOptions) : Option Bytes :=
  if o.requireTLS then (if hasExt ext "REQUIRETLS" then some " REQUIRETLS".b else none) else some []

def utf8Param (ext : List (Bytes × Bytes)) (o : MailOptions) : Option Bytes :=
  if o.utf8 then (if hasExt ext "SMTPUTF8" then some " SMTPUTF8".b else none) else some []

def retParam (o : MailOptions) : Option Bytes :=
  if o.ret.isEmpty then some []
  else if o.ret == "FULL".b then some " RET=FULL".b
  else if o.ret == "HDRS".b then some " RET=HDRS".b
  else none

def envidParam (o : MailOptions) : Option Bytes :=
  if o.envid.isEmpty then some []
  else if !isPrintableASCII o.envid then none
  else some (" ENVID=".b ++ encodeXtext o.envid)

def dsnMailParams (ext : List (Bytes × Bytes)) (o : MailOptions) : Option Bytes :=
  if hasExt ext "DSN" then
    match retParam o, envidParam o with
    | some r, some e => some (r ++ e)
    | _, _ => none
  else some []

def authParam (ext : List (Bytes × Bytes)) (o : MailOptions) : Bytes :=
  match o.auth with
  | some a => if hasExt ext "AUTH" then (if a.isEmpty then " AUTH=<>".b else " AUTH=".b ++ encodeXtext a) else []
  | none => []

/-- all parameters of the MAIL line, in the order they are written -/
def mailParams (ext : List (Bytes × Bytes)) (o : Option MailOptions) : Option Bytes :=
  match bodyParam ext o with
  | none => none
  | some b =>
    match o with
    | none => some b
    | some o =>
      match requireTLSParam ext o, utf8Param ext o, dsnMailParams ext o with
      | some t, some u, some d => some (b ++ sizeParam ext o ++ t ++ u ++ d ++ authParam ext o)
      | _, _, _ => none

/-- the MAIL command line (without CRLF), or `none` for a local error with nothing written -/
def mailLine (ext : List (Bytes × Bytes)) (frm : Bytes) (o : Option MailOptions) : Option Bytes :=
  if !validLine frm then none else
  match mailParams ext o with
  | none => none
  | some ps => some ("MAIL FROM:<".b ++ frm ++ ">".b ++ ps)

def notifyOk (vals : List Bytes) : Bool :=
  let known := vals.all (fun v => v == "NEVER".b || v == "DELAY".b || v == "FAILURE".b || v == "SUCCESS".b)
  !vals.isEmpty && known && vals.eraseDups.length == vals.length && (!(vals.contains "NEVER".b) || vals.length == 1)

def notifyParam (o : RcptOptions) : Option Bytes :=
  if o.notify.isEmpty then some []
  else if !notifyOk o.notify then none
  else some (" NOTIFY=".b ++ List.intercalate [44] o.notify)

def orcptParam (ext : List (Bytes × Bytes)) (o : RcptOptions) : Option Bytes :=
  if o.orcpt.isEmpty then some []
  else if o.orcptType == "RFC822".b then
    (if !isPrintableASCII o.orcpt then none else some (" ORCPT=RFC822;".b ++ encodeXtext o.orcpt))
  else if o.orcptType == "UTF-8".b then
    some (" ORCPT=UTF-8;".b ++
      (if hasExt ext "SMTPUTF8" then encodeUTF8AddrUnitext o.orcpt else encodeUTF8AddrXtext o.orcpt))
  else none

def rrvsParam (ext : List (Bytes × Bytes)) (o : RcptOptions) : Bytes :=
  match o.rrvs with
  | some t => if hasExt ext "RRVS" then " RRVS=".b ++ formatRFC3339 t.1 t.2 else []
  | none => []

def rcptParams (ext : List (Bytes × Bytes)) (o : RcptOptions) : Option Bytes :=
  if hasExt ext "DSN" then
    match notifyParam o, orcptParam ext o with
    | some n, some oc => some (n ++ oc ++ rrvsParam ext o)
    | _, _ => none
  else some (rrvsParam ext o)

/-- the RCPT command line, or `none` for a local error -/
def rcptLine (ext : List (Bytes × Bytes)) (to : Bytes) (o : Option RcptOptions) : Option Bytes :=
  if !validLine to then none else
  match o with
  | none => some ("RCPT TO:<".b ++ to ++ ">".b)
  | some o =>
    match rcptParams ext o with
    | none => none
    | some ps => some ("RCPT TO:<".b ++ to ++ ">".b ++ ps)

/-- the extension map an EHLO reply message produces (`ehlo`): lines after the first, split at the first SP -/
def parseExt (msg : Bytes) : List (Bytes × Bytes) :=
  match splitByte msg 10 with
  | _ :: rest => rest.foldl (fun m l =>
      let (k, v) := cutByte l 32
      (m.filter (·.1 != k)) ++ [(k, v.getD [])]) []
  | [] => []


/-! ### the scripted peer (mirrors the harness): each command line releases the next reply chunk -/

structure Peer where
  script : List (Option Bytes) := []     -- `none` = the peer goes away
  defRep : Bytes := "250 2.0.0 OK\r\n".b
  readable : Bytes := []                 -- octets the client can read
  line : Bytes := []                     -- the client's current, unfinished line
  data : Bool := false
  eof : Bool := false
deriving Repr, Inhabited

def Peer.release (p : Peer) : Peer :=
  match p.script with
  | none :: t => { p with script := t, eof := true }
  | some rep :: t =>
    let last := ((splitByte (trimRightCRLF rep) 10).getLast?).getD []
    { p with script := t, readable := p.readable ++ rep, data := "354".b.isPrefixOf last }
  | [] =>
    if p.defRep.isEmpty then { p with eof := true }      -- an active peer with nothing left to say goes away
    else { p with readable := p.readable ++ p.defRep }

def Peer.feed (p : Peer) : Bytes → Peer
  | [] => p
  | c :: t =>
    let line := p.line ++ [c]
    if c == 10 then
      let p1 := { p with line := [] }
      if p.data then
        (if line == ".\r\n".b then ({ p1 with data := false }).release else p1).feed t
      else p1.release.feed t
    else ({ p with line := line }).feed t

/-- `textproto.Reader.ReadLine` on what is readable: `(line, rest)`, `none` when nothing is there -/
def Peer.readLine (p : Peer) : Option (Bytes × Peer) :=
  if p.readable.isEmpty then none
  else
    let l := p.readable.takeWhile (· != 10)
    let rest := (p.readable.dropWhile (· != 10)).drop 1
    let l := if l.getLast? == some 13 then l.dropLast else l
    some (l, { p with readable := rest })

/-- all complete lines currently readable (a reply never spans two chunks in the scripts) -/
def Peer.lines (p : Peer) : Nat → List Bytes
  | 0 => []
  | fuel + 1 =>
    match p.readLine with
    | none => []
    | some (l, p') => l :: p'.lines fuel

inductive CErr
  | smtp (e : SErr)
  | other
deriving DecidableEq, Repr, Inhabited

structure DW where
  st : DotWriter.WSt := .begin_
  closed : Bool := false
  cb : Bool := false                    -- a status callback was supplied (LMTPData)
deriving Repr, Inhabited

structure C where
  lmtp : Bool := false
  ext : List (Bytes × Bytes) := []
  localName : Bytes := "localhost".b
  didGreet : Bool := false
  greetErr : Option CErr := none
  didHello : Bool := false
  helloErr : Option CErr := none
  rcpts : List Bytes := []
  connClosed : Bool := false
  peer : Peer := {}
  dws : List DW := []                   -- every DATA writer handed out so far (stale handles stay usable by the caller)
  dot : Option Nat := none              -- textproto's `Writer.dot`: the dot-writer that is still open, if any
  out : Bytes := []                     -- octets written during the current call
  carry : Bytes := []                   -- octets flushed during `Write` calls, accounted to the next other call
  wbuf : Bytes := []                    -- textproto's bufio.Writer: stuffed message octets not yet flushed
  -- STARTTLS (client side).  `crypto/tls` is abstracted: a handshake succeeds iff the peer speaks TLS, and then
  -- the connection is a fresh octet stream served by the peer's inner script.
  activePeer : Bool := false            -- the peer is a live process: once it has gone away, writes fail
  inner : Option (List (Option Bytes)) := none   -- what the peer serves inside TLS (`none`: it does not speak TLS)
  tlsPending : Bool := false            -- STARTTLS was answered 220; the handshake runs at the next write
  tlsState : String := "none"           -- none | ok | failed
  plainLog : Bytes := []                -- everything written on the raw socket before TLS
  innerLog : Bytes := []                -- everything written inside TLS
deriving Repr, Inhabited

/-- the TLS handshake, run lazily by the first write after STARTTLS -/
def C.handshake (c : C) : C :=
  if !c.tlsPending then c else
  match c.inner with
  | some sc => { c with tlsPending := false, tlsState := "ok", peer := { script := sc, defRep := [] } }
  | none => { c with tlsPending := false, tlsState := "failed", connClosed := true }

/-- write to the connection -/
def C.send (c0 : C) (bs0 : Bytes) : C × Bool :=
  let c := c0.handshake
  let bs := c.wbuf ++ bs0      -- whatever sits in the writer's buffer goes out first
  if c.connClosed || (c.activePeer && c.peer.eof) then ({ c with wbuf := [] }, false)
  else ({ c with peer := c.peer.feed bs, out := c.out ++ bs, wbuf := [],
                 plainLog := if c.tlsState == "ok" then c.plainLog else c.plainLog ++ bs,
                 innerLog := if c.tlsState == "ok" then c.innerLog ++ bs else c.innerLog }, true)

/-- `Client.readResponse(expect)` -/
def C.read (c : C) (expect : Nat) : C × RR :=
  let ls := c.peer.lines (c.peer.readable.length + 1)
  let (r, rest) := readResponse expect ls
  -- consume exactly the lines `readResponse` used
  let used := ls.length - rest.length
  let rec drop : Nat → Peer → Peer
    | 0, p => p
    | n + 1, p => match p.readLine with | some (_, p') => drop n p' | none => p
  ({ c with peer := drop used c.peer }, if c.connClosed then .io else r)

/-- textproto's `Writer.closeDot`, run before every command line: a dot-writer left open is ended first -/
def C.closeDot (c : C) : C × Bytes :=
  match c.dot with
  | none => (c, [])
  | some i => ({ c with dot := none }, DotWriter.wclose ((c.dws.getD i {}).st))

/-- `Client.cmd(expect, line)` -/
def C.cmd (c : C) (expect : Nat) (line : Bytes) : C × RR :=
  let (c, pre) := c.closeDot
  match c.send (pre ++ line ++ crlf) with
  | (c, false) => (c, .io)
  | (c, true) => c.read expect

def rrErr : RR → Option CErr
  | .ok _ _ => none
  | .smtpErr e => some (.smtp e)
  | _ => some .other

def C.greet (c : C) : C × Option CErr :=
  if c.didGreet then (c, c.greetErr)
  else
    let c := { c with didGreet := true }
    match c.read 220 with
    | (c, .ok _ _) => (c, none)
    | (c, r) => ({ c with greetErr := rrErr r, connClosed := true }, rrErr r)

def C.hello (c : C) : C × Option CErr :=
  if c.didHello then (c, c.helloErr)
  else
    match c.greet with
    | (c, some e) => (c, some e)
    | (c, none) =>
      let c := { c with didHello := true }
      match c.cmd 250 ((if c.lmtp then "LHLO ".b else "EHLO ".b) ++ c.localName) with
      | (c, .ok _ msg) => ({ c with ext := parseExt msg }, none)
      | (c, .smtpErr e) =>
        -- EHLO not understood: fall back to HELO — not in LMTP, which has no other greeting than LHLO
        if (e.code == 500 || e.code == 502) && !c.lmtp then
          let c := { c with ext := [] }
          match c.cmd 250 ("HELO ".b ++ c.localName) with
          | (c, r) => ({ c with helloErr := rrErr r }, rrErr r)
        else ({ c with helloErr := some (.smtp e) }, some (.smtp e))
      | (c, r) => ({ c with helloErr := rrErr r }, rrErr r)

/-- `initStartTLS` + `startTLS` (NewClientStartTLS, DialStartTLS): EHLO, STARTTLS only if offered, and after a 220
    a new connection state: the buffered plaintext is dropped with the old reader, the capabilities learned in
    plaintext are forgotten (RFC 3207 4.2) and EHLO will be sent again -/
def C.initStartTLS (c : C) : C × Option CErr :=
  match c.hello with
  | (c, some e) => (c, some e)
  | (c, none) =>
    if !hasExt c.ext "STARTTLS" then (c, some .other)
    else match c.cmd 220 "STARTTLS".b with
      | (c, .ok _ _) =>
        ({ c with tlsPending := true, didHello := false, ext := [], peer := { c.peer with readable := [] } }, none)
      | (c, r) => (c, rrErr r)

inductive Call
  | hello (name : Bytes)
  | mail (frm : Bytes) (o : Option MailOptions)
  | rcpt (to : Bytes) (o : Option RcptOptions)
  | verify (a : Bytes)
  | reset | noop | quit
  | ext (name : Bytes)
  | data | lmtpData
  | write (bs : Bytes)
  | close (k : Option Nat := none)      -- the k-th writer handed out so far (default: the latest)
  | auth (mech : Bytes) (ir : Option Bytes) (steps : List (Option (Option Bytes)))   -- none = ERR, some none = nil
deriving Repr, Inhabited

structure CallRes where
  written : Bytes := []
  res : String := "nil"
  extra : List String := []
deriving Repr, Inhabited

def showErr : Option CErr → String
  | none => "nil"
  | some (.smtp e) => s!"se~{e.code}~{e.enh.a}.{e.enh.b}.{e.enh.c}~{hexOfBytes e.msg}"
  | some .other => "err"

/-- the reply loop of `dataCloser.Close` in LMTP mode -/
def lmtpReplies : List Bytes → C → Bool → Option CErr → List String → C × Option CErr × List String
  | [], c, _, first, cbs => (c, first, cbs)
  | rcpt :: rest, c, cb, first, cbs =>
    match c.read 250 with
    | (c, .ok _ _) => lmtpReplies rest c cb first (if cb then cbs ++ [hexOfBytes rcpt ++ "=nil"] else cbs)
    | (c, .smtpErr e) =>
      if cb then lmtpReplies rest c cb first (cbs ++ [hexOfBytes rcpt ++ "=" ++ showErr (some (.smtp e))])
      else lmtpReplies rest c cb (if first.isNone then some (.smtp e) else first) cbs
    | (c, _) => (c, some .other, cbs)

/-- the challenge/response loop of `Client.Auth` -/
def authLoop : Nat → C → RR → List (Option (Option Bytes)) → List String → C × Option CErr × List String
  | 0, c, _, _, seen => (c, none, seen)
  | fuel + 1, c, r, steps, seen =>
    match r with
    | .ok code msg64 =>
      if code == 334 then
        match Server.b64Decode msg64 with
        | none => let (c, _) := c.cmd 501 [42]; (c, some .other, seen)
        | some ch =>
          let seen := seen ++ [hexOfBytes ch]
          let (step, steps) := match steps with
            | s :: t => (s, t)
            | [] => (some (some []), [])
          match step with
          | none => let (c, _) := c.cmd 501 [42]; (c, some .other, seen)
          | some none => (c, none, seen)
          | some (some resp) =>
            let (c, r') := c.cmd 0 (Server.b64Encode resp)
            authLoop fuel c r' steps seen
      else if code == 235 then (c, none, seen)
      else
        let (c, _) := c.cmd 501 [42]
        (c, some (.smtp (toSMTPErr code msg64)), seen)
    | other => (c, rrErr other, seen)

def C.call (c0 : C) (call : Call) : C × CallRes :=
  let c := { c0 with out := c0.carry, carry := [] }
  let fin (c : C) (e : Option CErr) (extra : List String := []) : C × CallRes :=
    (c, { written := c.out, res := showErr e, extra := extra })
  match call with
  | .hello name =>
    if !validLine name then fin c (some .other)
    else if c.didHello then fin c (some .other)
    else let (c, e) := ({ c with localName := name }).hello; fin c e
  | .verify a =>
    if !validLine a then fin c (some .other)
    else match c.hello with
      | (c, some e) => fin c (some e)
      | (c, none) => let (c, r) := c.cmd 250 ("VRFY ".b ++ a); fin c (rrErr r)
  | .mail frm o =>
    if !validLine frm then fin c (some .other)
    else match c.hello with
      | (c, some e) => fin c (some e)
      | (c, none) =>
        match mailLine c.ext frm o with
        | none => fin c (some .other)
        | some l =>
          match c.cmd 250 l with
          | (c, .ok _ _) => fin { c with rcpts := [] } none
          | (c, r) => fin c (rrErr r)
  | .rcpt to o =>
    match rcptLine c.ext to o with
    | none => fin c (some .other)
    | some l =>
      match c.cmd 25 l with
      | (c, .ok _ _) => fin { c with rcpts := c.rcpts ++ [to] } none
      | (c, r) => fin c (rrErr r)
  | .reset =>
    match c.hello with
    | (c, some e) => fin c (some e)
    | (c, none) =>
      match c.cmd 250 "RSET".b with
      | (c, .ok _ _) => fin { c with didHello := false, helloErr := none, rcpts := [] } none
      | (c, r) => fin c (rrErr r)
  | .noop =>
    match c.hello with
    | (c, some e) => fin c (some e)
    | (c, none) => let (c, r) := c.cmd 250 "NOOP".b; fin c (rrErr r)
  | .quit =>
    match c.hello with
    | (c, some e) => fin c (some e)
    | (c, none) =>
      match c.cmd 221 "QUIT".b with
      | (c, .ok _ _) => fin { c with connClosed := true } none
      | (c, r) => fin c (rrErr r)
  | .ext name =>
    match c.hello with
    | (c, some _) => (c, { written := c.out, res := "false:-" })
    | (c, none) =>
      match c.ext.find? (·.1 == toUpper name) with
      | some (_, v) => (c, { written := c.out, res := "true:" ++ hexOfBytes v })
      | none => (c, { written := c.out, res := "false:-" })
  | .data =>
    match c.cmd 354 "DATA".b with
    | (c, .ok _ _) => fin { c with dws := c.dws ++ [{}], dot := some c.dws.length } none
    | (c, r) => fin c (rrErr r)
  | .lmtpData =>
    if !c.lmtp then fin c (some .other)
    else match c.cmd 354 "DATA".b with
      | (c, .ok _ _) => fin { c with dws := c.dws ++ [{ cb := true }], dot := some c.dws.length } none
      | (c, r) => fin c (rrErr r)
  | .write bs =>
    match c.dws.getLast? with
    | none => (c, { res := "nowriter" })
    | some d =>
      let (st, o) := DotWriter.write d.st bs
      -- the stuffed octets sit in textproto's bufio.Writer (4096 octets); it flushes when full, and at `Close`
      let total := c.wbuf ++ o
      let k := if total.isEmpty then 0 else ((total.length - 1) / 4096) * 4096
      let (c, _) := ({ c with wbuf := [] }).send (total.take k)
      ({ c with dws := c.dws.set (c.dws.length - 1) { d with st := st }, wbuf := total.drop k, carry := c.out, out := [] },
       { res := "nil" })
  | .close k? =>
    let k := k?.getD (c.dws.length - 1)
    match c.dws[k]? with
    | none => (c, { res := "nowriter" })
    | some d =>
      if d.closed then fin c (some .other)
      else
        let c := if c.dot == some k then { c with dot := none } else c
        match c.send (DotWriter.wclose d.st) with
        | (c, false) => fin c (some .other)
        | (c, true) =>
          let c := { c with dws := c.dws.set k { d with closed := true } }
          if c.lmtp then
            let (c, e, cbs) := lmtpReplies c.rcpts c d.cb none []
            (c, { written := c.out, res := showErr e, extra := [String.intercalate "+" cbs] })
          else
            let (c, r) := c.read 250
            fin c (rrErr r)
  | .auth mech ir steps =>
    match c.hello with
    | (c, some e) => fin c (some e)
    | (c, none) =>
      -- the mechanism name (from the caller's `sasl.Client`) goes on the AUTH line: CR/LF in it is a local error
      if !validLine mech then fin c (some .other) else
      let resp64 : Bytes := match ir with
        | none => []
        | some r => if r.isEmpty then [61] else Server.b64Encode r
      let line := trimSpace ("AUTH ".b ++ mech ++ [32] ++ resp64)
      let (c, r) := c.cmd 0 line
      let (c, e, seen) := authLoop (steps.length + 2) c r steps []
      (c, { written := c.out, res := showErr e, extra := [String.intercalate "+" seen] })

/-- run calls until one fails: the result of the failing call, or `nil` -/
def runUntilErr (c : C) : List Call → C × String
  | [] => (c, "nil")
  | call :: rest =>
    let (c, r) := c.call call
    if r.res == "nil" then runUntilErr c rest else (c, r.res)

/-- the package-level `SendMail(addr, auth, from, to, r)`: validate, DialStartTLS, AUTH if asked, the transaction, QUIT -/
def sendMail (c : C) (auth : Bool) (frm : Bytes) (to : List Bytes) (body : Bytes) : C × String :=
  if !validLine frm || to.any (fun t => !validLine t) then (c, "err") else
  match c.initStartTLS with
  | (c, some e) => (c, showErr (some e))
  | (c, none) =>
    let authStep : C × Option String :=
      if auth then
        let (c, r) := c.call (.ext "AUTH".b)
        if r.res.startsWith "true" then
          let (c, r) := c.call (.auth "PLAIN".b (some [0, 117, 115, 101, 114, 0, 115, 101, 99, 114, 101, 116]) [])
          (c, if r.res == "nil" then none else some r.res)
        else (c, some "err")
      else (c, none)
    match authStep with
    | (c, some e) => (c, e)
    | (c, none) =>
      runUntilErr c ([Call.mail frm none] ++ to.map (fun t => Call.rcpt t none) ++ [.data, .write body, .close, .quit])

end SmtpV.Client
