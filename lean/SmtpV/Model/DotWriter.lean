import SmtpV.Basic
/-!
Model of `net/textproto.dotWriter` (stdlib; used by `Client.Data`): dot-stuffing and LF → CRLF
normalisation on the way out, and the end-of-data marker written by `Close`.
-/
namespace SmtpV.DotWriter
open SmtpV

inductive WSt | begin_ | beginLine | cr | data
deriving DecidableEq, Repr, Inhabited

/-- one octet through `dotWriter.Write`: new state and the octets put on the wire -/
def wstep : WSt → Byte → WSt × Bytes
  | .begin_, c | .beginLine, c =>
    let pre : Bytes := if c == DOT then [DOT] else []
    if c == CR then (.cr, pre ++ [c])
    else if c == LF then (.beginLine, pre ++ [CR, c])
    else (.data, pre ++ [c])
  | .data, c =>
    if c == CR then (.cr, [c])
    else if c == LF then (.beginLine, [CR, c])
    else (.data, [c])
  | .cr, c => if c == LF then (.beginLine, [c]) else (.data, [c])

def write : WSt → Bytes → WSt × Bytes
  | s, [] => (s, [])
  | s, c :: t =>
    let (s1, o1) := wstep s c
    let (s2, o2) := write s1 t
    (s2, o1 ++ o2)

/-- what `Close` writes (the state is left as it is) -/
def wclose : WSt → Bytes
  | .cr => [LF, DOT, CR, LF]
  | .beginLine => [DOT, CR, LF]
  | _ => [CR, LF, DOT, CR, LF]

/-- everything on the wire for a body written in the given parts and then closed -/
def writeAll (parts : List Bytes) : Bytes :=
  let (s, o) := parts.foldl (fun (acc : WSt × Bytes) p => let (s', o') := write acc.1 p; (s', acc.2 ++ o')) (.begin_, [])
  o ++ wclose s

end SmtpV.DotWriter
