import SmtpV.Basic
/-!
Model of `Server.Serve` / `Close` / `Shutdown` bookkeeping (server.go) for one listener whose
`Accept` outcomes are scripted: the accept loop with its back-off for temporary errors, and the
`done` channel that makes the second `Close`/`Shutdown` report `ErrServerClosed`.
-/
namespace SmtpV.Lifecycle

inductive Outcome | conn | temp | perm
deriving DecidableEq, Repr, Inhabited

inductive Ending | close | shutdown | none
deriving DecidableEq, Repr, Inhabited

/-- the next back-off delay in milliseconds (5 ms, doubled each time, at most 1 s) -/
def nextDelay (d : Nat) : Nat := if d == 0 then 5 else min (2 * d) 1000

structure Acc where
  accepted : Nat := 0
  delays : List Nat := []
  delay : Nat := 0
  ret : Option String := none       -- `Serve` has returned this (before any Close): a permanent error
deriving Repr, Inhabited

/-- the accept loop over the scripted outcomes, while the server is not closed -/
def acceptLoop : List Outcome → Acc → Acc
  | [], a => a
  | .conn :: t, a => acceptLoop t { a with accepted := a.accepted + 1 }
  | .temp :: t, a =>
    let d := nextDelay a.delay
    acceptLoop t { a with delay := d, delays := a.delays ++ [d] }
  | .perm :: _, a => { a with ret := some "perm" }

/-- results of the calls `Close`/`Shutdown` made one after the other -/
def endings : List Ending → Bool → List String
  | [], _ => []
  | .none :: t, closed => "-" :: endings t closed
  | _ :: t, closed => (if closed then "closed" else "nil") :: endings t true

structure Res where
  serve : String
  ends : List String
  accepted : Nat
  delays : List Nat
deriving Repr, Inhabited

def run (script : List Outcome) (es : List Ending) : Res :=
  let a := acceptLoop script {}
  let anyEnd := es.any (· != .none)
  { serve := match a.ret with
      | some r => r
      | none => if anyEnd then "nil" else "HANG"     -- blocked in Accept until somebody closes the listener
    ends := endings es false, accepted := a.accepted, delays := a.delays }

/-! ### two listeners served by one server, idle connections on both, a listener whose `Close` reports an error -/

structure Res2 where
  serveA : String
  serveB : String
  ends : List String
  accepted : Nat
  opened : Nat          -- connections still open after the endings
deriving Repr, Inhabited

/-- `Close`/`Shutdown` called one after the other on a server with `n` idle connections; `lerr`: some listener's `Close`
    reports an error (remembered, the walk over listeners and connections goes on).  Returns the results and the number
    of connections left open. -/
def endings2 : List Ending → Bool → Bool → Nat → List String × Nat
  | [], _, _, n => ([], n)
  | .none :: t, closed, lerr, n => let r := endings2 t closed lerr n; ("-" :: r.1, r.2)
  | .close :: t, closed, lerr, n =>
    if closed then let r := endings2 t true lerr n; ("closed" :: r.1, r.2)
    else let r := endings2 t true lerr 0; ((if lerr then "listenerr" else "nil") :: r.1, r.2)
  | .shutdown :: t, closed, lerr, n =>
    if closed then let r := endings2 t true lerr n; ("closed" :: r.1, r.2)
    else
      -- idle connections never finish by themselves: the context expires
      let r := endings2 t true lerr n
      ((if n > 0 then "ctx" else if lerr then "listenerr" else "nil") :: r.1, r.2)

def run2 (nA nB : Nat) (errA errB : Bool) (es : List Ending) : Res2 :=
  let r := endings2 es false (errA || errB) (nA + nB)
  let anyEnd := es.any (· != .none)
  { serveA := if anyEnd then "nil" else "HANG", serveB := if anyEnd then "nil" else "HANG",
    ends := r.1, accepted := nA + nB, opened := r.2 }

end SmtpV.Lifecycle
