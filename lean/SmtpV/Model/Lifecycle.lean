import SmtpV.Basic
/-!
Model of `Server.Serve` / `Close` / `Shutdown` bookkeeping (server.go) for one listener whose
`Accept` outcomes are scripted: the accept loop with its back-off for temporary errors, and the
`done` channel that makes the second `Close`/`Shutdown` report `ErrServerClosed`.
-/
namespace SmtpV.Lifecycle

inductive Outcome | conn | temp | perm
deriving DecidableEq, Repr, Inhabited

inductive Ending | close | shutdown | none
deriving DecidableEq, Repr, Inhabited

/-- the next back-off delay in milliseconds (5 ms, doubled each time, at most 1 s) -/
def nextDelay (d : Nat) : Nat := if d == 0 then 5 else min (2 * d) 1000

structure Acc where
  accepted : Nat := 0
  delays : List Nat := []
  delay : Nat := 0
  ret : Option String := none       -- `Serve` has returned this (before any Close): a permanent error
deriving Repr, Inhabited

/-- the accept loop over the scripted outcomes, while the server is not closed -/
def acceptLoop : List Outcome → Acc → Acc
  | [], a => a
  | .conn :: t, a => acceptLoop t { a with accepted := a.accepted + 1 }
  | .temp :: t, a =>
    let d := nextDelay a.delay
    acceptLoop t { a with delay := d, delays := a.delays ++ [d] }
  | .perm :: _, a => { a with ret := some "perm" }

/-- results of the calls `Close`/`Shutdown` made one after the other -/
def endings : List Ending → Bool → List String
  | [], _ => []
  | .none :: t, closed => "-" :: endings t closed
  | _ :: t, closed => (if closed then "closed" else "nil") :: endings t true

structure Res where
  serve : String
  ends : List String
  accepted : Nat
  delays : List Nat
deriving Repr, Inhabited

def run (script : List Outcome) (es : List Ending) : Res :=
  let a := acceptLoop script {}
  let anyEnd := es.any (· != .none)
  { serve := match a.ret with
      | some r => r
      | none => if anyEnd then "nil" else "HANG"     -- blocked in Accept until somebody closes the listener
    ends := endings es false, accepted := a.accepted, delays := a.delays }

end SmtpV.Lifecycle
