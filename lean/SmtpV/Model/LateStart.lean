import SmtpV.Basic
/-!
L3b: the start of a chunked delivery against `Conn.Close` (conn.go `handleBdat`, the goroutine's first lines).

The command loop spawns a delivery goroutine and runs on; `Close` (the peer is gone, QUIT, too many errors, the
application) logs the session out and sets `c.session = nil`.  The goroutine looks at the session when it gets to run.
`fixed := false` is the tree before c1a4e24: `c.Session().Data(r)` — a nil session is dereferenced, the panic is
recovered and logged.  `fixed := true`: the goroutine looks first and ends with `ErrDataReset` when there is no session.
A schedule is a list of thread choices (0 = the command loop, k+1 = goroutine k); every schedule is an execution.
-/
namespace SmtpV.LateStart

inductive Op
  | spawn        -- first BDAT of a transfer: `go func() { … }()`
  | close        -- `Conn.Close`: Logout, `c.session = nil`
deriving DecidableEq, Repr

/-- a delivery goroutine: started but not yet run; has looked at the session; inside `Data`; over -/
inductive G | spawned | looked (saw : Bool) | running | ended
deriving DecidableEq, Repr

structure Conf where
  prog : List Op
  sess : Bool := true          -- `c.session != nil`
  gs : List G := []
  panics : Nat := 0            -- recovered panics ("panic serving …" in the error log)
  dataCalls : List Nat := []   -- deliveries whose `Data` call has begun
  lateCalls : Nat := 0         -- `Data` calls that began after the session's Logout
deriving DecidableEq, Repr

def loopStep (c : Conf) : Conf :=
  match c.prog with
  | [] => c
  | .spawn :: p => { c with prog := p, gs := c.gs ++ [.spawned] }
  | .close :: p => { c with prog := p, sess := false }

def gStep (fixed : Bool) (c : Conf) (t : Nat) : Conf :=
  match c.gs[t]? with
  | some .spawned =>
    if fixed then { c with gs := c.gs.set t (.looked c.sess) }         -- `session := c.Session()`
    else if c.sess then                                                 -- `c.Session().Data(r)`
      { c with gs := c.gs.set t .running, dataCalls := c.dataCalls ++ [t] }
    else { c with gs := c.gs.set t .ended, panics := c.panics + 1 }    -- nil dereference, recovered
  | some (.looked true) =>
    { c with gs := c.gs.set t .running, dataCalls := c.dataCalls ++ [t],
             lateCalls := if c.sess then c.lateCalls else c.lateCalls + 1 }
  | some (.looked false) => { c with gs := c.gs.set t .ended }         -- `dataResult <- ErrDataReset`
  | some .running => { c with gs := c.gs.set t .ended }
  | _ => c

def step (fixed : Bool) (c : Conf) : Nat → Conf
  | 0 => loopStep c
  | k + 1 => gStep fixed c k

def exec (fixed : Bool) (c : Conf) (sched : List Nat) : Conf := sched.foldl (step fixed) c

/-! ### the repaired code never panics, under any schedule -/

theorem gStep_panics (c : Conf) (t : Nat) : (gStep true c t).panics = c.panics := by
  unfold gStep
  split
  · simp
  · rfl
  · rfl
  · rfl
  · rfl

theorem loopStep_panics (c : Conf) : (loopStep c).panics = c.panics := by
  unfold loopStep; split <;> rfl

theorem exec_panics (sched : List Nat) : ∀ c : Conf, (exec true c sched).panics = c.panics := by
  induction sched with
  | nil => intro c; rfl
  | cons k rest ih =>
    intro c
    show (exec true (step true c k) rest).panics = c.panics
    rw [ih]
    cases k with
    | zero => exact loopStep_panics c
    | succ k => exact gStep_panics c k

/-- **no_panic_any_schedule.**  Whatever the command loop does (any number of transfers, `Close` at any point) and however
    the goroutines are scheduled, the repaired code never dereferences a nil session. -/
theorem no_panic_any_schedule (prog : List Op) (sched : List Nat) : (exec true { prog := prog } sched).panics = 0 :=
  exec_panics sched _

/-- **pinned_tree_panics.**  Before the repair: BDAT, then the peer goes away, then the goroutine gets to run. -/
theorem pinned_tree_panics : (exec false { prog := [.spawn, .close] } [0, 0, 1]).panics = 1 := by decide

/-! ### a delivery that finds no session never calls the backend -/

/-- the calls that begin are exactly those of deliveries that saw a session: a `looked false` goroutine ends without a call -/
theorem gStep_noSession_ends (c : Conf) (t : Nat) (h : c.gs[t]? = some (.looked false)) :
    (gStep true c t).dataCalls = c.dataCalls ∧ (gStep true c t).gs[t]? = some .ended := by
  have hlt : t < c.gs.length := by
    cases hl : c.gs[t]? with
    | none => rw [hl] at h; cases h
    | some g => exact (List.getElem?_eq_some_iff.mp hl).1
  unfold gStep
  rw [h]
  exact ⟨rfl, by simp [hlt]⟩

/-- the state of a delivery that will never reach the backend -/
def Dead (c : Conf) (t : Nat) : Prop :=
  c.sess = false ∧ (c.gs[t]? = some .spawned ∨ c.gs[t]? = some (.looked false) ∨ c.gs[t]? = some .ended) ∧ t ∉ c.dataCalls

theorem getElem?_set_ne' {α} (l : List α) (i j : Nat) (x : α) (h : i ≠ j) : (l.set i x)[j]? = l[j]? := by
  simp [h]

theorem dead_step (c : Conf) (t k : Nat) (h : Dead c t) : Dead (step true c k) t := by
  obtain ⟨hs, hg, hd⟩ := h
  cases k with
  | zero =>
    show Dead (loopStep c) t
    unfold loopStep
    split
    · exact ⟨hs, hg, hd⟩
    · refine ⟨hs, ?_, hd⟩
      have hlt : t < c.gs.length := by
        rcases hg with h | h | h <;> exact (List.getElem?_eq_some_iff.mp h).1
      simp only [List.getElem?_append_left hlt]
      exact hg
    · exact ⟨rfl, hg, hd⟩
  | succ u =>
    show Dead (gStep true c u) t
    by_cases hut : u = t
    · subst hut
      have hlt : u < c.gs.length := by
        rcases hg with h | h | h <;> exact (List.getElem?_eq_some_iff.mp h).1
      unfold gStep
      rcases hg with h | h | h
      · rw [h]; simp only [if_true, hs]
        exact ⟨rfl, Or.inr (Or.inl (by simp [hlt])), hd⟩
      · rw [h]
        exact ⟨hs, Or.inr (Or.inr (by simp [hlt])), hd⟩
      · rw [h]
        exact ⟨hs, Or.inr (Or.inr h), hd⟩
    · unfold gStep
      split
      · simp only [if_true]
        exact ⟨hs, by simp only [getElem?_set_ne' _ _ _ _ hut]; exact hg, hd⟩
      · refine ⟨hs, by simp only [getElem?_set_ne' _ _ _ _ hut]; exact hg, ?_⟩
        simp only [List.mem_append, List.mem_singleton, not_or]
        exact ⟨hd, fun e => hut e.symm⟩
      · exact ⟨hs, by simp only [getElem?_set_ne' _ _ _ _ hut]; exact hg, hd⟩
      · exact ⟨hs, by simp only [getElem?_set_ne' _ _ _ _ hut]; exact hg, hd⟩
      · exact ⟨hs, hg, hd⟩

/-- **late_start_never_calls.**  A delivery that has not looked at the session by the time the connection is closed never calls
    the backend, whatever happens afterwards and however the goroutines are scheduled: no `Data` on a logged-out session from
    a late start (the schedule in which the tree before the repair panicked). -/
theorem late_start_never_calls (sched : List Nat) : ∀ (c : Conf) (t : Nat), Dead c t → t ∉ (exec true c sched).dataCalls := by
  induction sched with
  | nil => intro c t h; exact h.2.2
  | cons k rest ih =>
    intro c t h
    exact ih (step true c k) t (dead_step c t k h)

/-! ### what the repair does not close (and no small patch can): the window between the look and the call -/

/-- **window_remains.**  The goroutine sees the session, `Close` logs it out, then `Data` begins: a callback that begins after
    Logout (C08) is still possible — closing this window needs `Close` to wait for the delivery. -/
theorem window_remains : (exec true { prog := [.spawn, .close] } [0, 1, 0, 1]).lateCalls = 1 := by decide

/-- when the goroutine gets to run only after `Close`, nothing is called at all -/
theorem late_start_calls_nothing : (exec true { prog := [.spawn, .close] } [0, 0, 1, 1]).dataCalls = [] ∧
    (exec true { prog := [.spawn, .close] } [0, 0, 1, 1]).gs = [.ended] := by decide

end SmtpV.LateStart
