import SmtpV.Spec.Monitors
/-!
Model of conn.go's `statusCollector` (LMTP per-recipient statuses) as the code implements it: one buffered
channel per distinct address, its capacity the number of times the address was accepted; `SetStatus`
sends without blocking (a full or unknown channel is a panic); `fillRemaining` fills every channel to
capacity; the command loop then receives once per recipient, in RCPT order, from that recipient's channel.
-/
namespace SmtpV.StatusChans
open SmtpV SmtpV.Spec SmtpV.Spec.Mon

/-- the channels: address ↦ (capacity, queued statuses, oldest first) -/
structure Chan where
  addr : Bytes
  cap : Nat
  q : List BRes := []
deriving Repr, Inhabited

abbrev Chans := List Chan

/-- `createStatusCollector`: one channel per distinct address -/
def create (rcpts : List Bytes) : Chans :=
  rcpts.eraseDups.map fun a => { addr := a, cap := countOf a rcpts }

/-- `SetStatus(a, r)`: `none` = panic (unknown recipient, or one call too many) -/
def setStatus : Chans → Bytes → BRes → Option Chans
  | [], _, _ => none
  | c :: cs, a, r =>
    if c.addr == a then (if c.q.length < c.cap then some ({ c with q := c.q ++ [r] } :: cs) else none)
    else (setStatus cs a r).map (c :: ·)

/-- the backend's calls, in order -/
def setAll : Chans → List (Bytes × BRes) → Option Chans
  | cs, [] => some cs
  | cs, (a, r) :: rest => match setStatus cs a r with | some cs' => setAll cs' rest | none => none

/-- `fillRemaining(err)` -/
def fill (cs : Chans) (r : BRes) : Chans :=
  cs.map fun c => { c with q := c.q ++ List.replicate (c.cap - c.q.length) r }

/-- `<-status.status[i]`: receive from the channel of address `a` -/
def recv : Chans → Bytes → Option (BRes × Chans)
  | [], _ => none
  | c :: cs, a =>
    if c.addr == a then (match c.q with | r :: q' => some (r, { c with q := q' } :: cs) | [] => none)
    else (recv cs a).map fun (r, cs') => (r, c :: cs')

/-- the loop `for i, rcpt := range c.recipients { <-status.status[i] }`; `none` = it would block -/
def recvAll : Chans → List Bytes → Option (List (Bytes × BRes))
  | _, [] => some []
  | cs, a :: rest =>
    match recv cs a with
    | some (r, cs') => (recvAll cs' rest).map ((a, r) :: ·)
    | none => none

/-- the whole mechanism for an in-contract backend: statuses, then the return value everywhere else -/
def run (rcpts : List Bytes) (calls : List (Bytes × BRes)) (ret : BRes) : Option (List (Bytes × BRes)) :=
  match setAll (create rcpts) calls with
  | some cs => recvAll (fill cs ret) rcpts
  | none => none

end SmtpV.StatusChans
