import SmtpV.Model.Text
/-!
Model of parse.go: `parseCmd`, `parseArgs`, `parseHelloArgument`, `cutPrefixFold` and the RFC 5321
path parser (`parsePath`, `parseReversePath`, `parseMailbox`, `parseLocalPart`).
-/
namespace SmtpV.Parse
open SmtpV SmtpV.Text

/-- `cutPrefixFold(s, prefix)` -/
def cutPrefixFold (s pfx : Bytes) : Option Bytes :=
  if s.length < pfx.length || !equalFold (s.take pfx.length) pfx then none
  else some (s.drop pfx.length)

/-- `parseCmd(line)`: `none` = error ("Bad command"); `some (cmd, arg)` otherwise (cmd may be empty) -/
def parseCmd (line0 : Bytes) : Option (Bytes × Bytes) :=
  let line := trimRightCRLF line0
  let l := line.length
  if hasPrefix (toUpper line) "STARTTLS".b then some ("STARTTLS".b, [])
  else if l == 0 then some ([], [])
  else if l < 4 then none
  else if l == 4 then some (toUpper line, [])
  else if l == 5 then none
  else if line.getD 4 0 != SP then none
  else some (toUpper (line.take 4), trimSpace (line.drop 5))

/-- `parseArgs(s)`: association list in order of appearance, a later duplicate overwriting the
    earlier one in place (Go: a map; the iteration order over it is unspecified) -/
def insertArg (m : List (Bytes × Bytes)) (k v : Bytes) : List (Bytes × Bytes) :=
  if m.any (fun p => p.1 == k) then m.map (fun p => if p.1 == k then (k, v) else p)
  else m ++ [(k, v)]

def parseArgs (s : Bytes) : Option (List (Bytes × Bytes)) :=
  (fields s).foldl (fun acc arg =>
    match acc with
    | none => none
    | some m =>
      match splitByte arg 61 with   -- '='
      | [k, v] => if v.isEmpty then none else some (insertArg m (toUpper k) v)
      | [k] => some (insertArg m (toUpper k) [])
      | _ => none) (some [])

/-- `parseHelloArgument(arg)` -/
def parseHelloArgument (arg : Bytes) : Option Bytes :=
  let domain := match indexByte arg SP with
    | some i => arg.take i
    | none => arg
  if domain.isEmpty then none else some domain

/-! ### the path parser: every function returns the value and the unconsumed rest, or `none` -/

def isDotStringStop (ch : Byte) : Bool :=
  ch == 40 || ch == 41 || ch == 60 || ch == 62 || ch == 91 || ch == 93 || ch == 58 || ch == 59 ||
  ch == 92 || ch == 44 || ch == 34 || ch == SP || ch == HT

/-- quoted-string body after the opening `"`: `(content, rest after closing quote)` -/
def parseQuoted : Bytes → Bytes → Option (Bytes × Bytes)
  | [], _ => none
  | ch :: t, acc =>
    if ch == 92 then   -- backslash: take the next octet literally
      match t with
      | [] => none
      | c2 :: t2 => parseQuoted t2 (c2 :: acc)
    else if ch == 34 then some (acc.reverse, t)
    else parseQuoted t (ch :: acc)

/-- dot-string: up to `@` or end of input; a forbidden special is an error -/
def parseDotString : Bytes → Bytes → Option (Bytes × Bytes)
  | [], acc => some (acc.reverse, [])
  | ch :: t, acc =>
    if ch == 64 then some (acc.reverse, ch :: t)
    else if isDotStringStop ch then none
    else parseDotString t (ch :: acc)

def parseLocalPart (s : Bytes) : Option (Bytes × Bytes) :=
  match s with
  | 34 :: t => parseQuoted t []
  | _ => parseDotString s []

def parseMailbox (s : Bytes) : Option (Bytes × Bytes) :=
  match parseLocalPart s with
  | none => none
  | some (lp, rest) =>
    if lp.isEmpty then none
    else match rest with
      | 64 :: t =>
        let dom := t.takeWhile (fun ch => !(ch == SP || ch == HT || ch == 62))
        let rest' := t.dropWhile (fun ch => !(ch == SP || ch == HT || ch == 62))
        -- `strings.HasSuffix(sb.String(), "@")`: empty domain, or a domain ending in '@'
        if hasSuffix (lp ++ [64] ++ dom) [64] then none else some (lp ++ [64] ++ dom, rest')
      | _ => none

/-- a source route (`@a,@b:`) in front of the mailbox is skipped up to its colon -/
def stripRoute (s1 : Bytes) : Option Bytes :=
  match s1 with
  | 64 :: t =>
    match indexByte t 58 with   -- ':'
    | none => none
    | some i => some (t.drop (i + 1))
  | _ => some s1

def parsePath (s : Bytes) : Option (Bytes × Bytes) :=
  let (hasBracket, s1) := match s with
    | 60 :: t => (true, t)
    | _ => (false, s)
  match stripRoute s1 with
  | none => none
  | some s2 =>
    match parseMailbox s2 with
    | none => none
    | some (mbox, rest) =>
      if hasBracket then
        match rest with
        | 62 :: t => some (mbox, t)
        | _ => none
      else some (mbox, rest)

def parseReversePath (s : Bytes) : Option (Bytes × Bytes) :=
  if hasPrefix s "<>".b then some ([], s.drop 2) else parsePath s

end SmtpV.Parse
