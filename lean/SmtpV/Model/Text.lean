import SmtpV.Basic
/-!
Octet-string operations mirroring the Go `strings`/`unicode/utf8`/`strconv` functions the
package uses.  Go strings are arbitrary octets; UTF-8 is decoded only where Go does so
(`range`, `ToUpper`, `Fields`, `TrimSpace`, `EqualFold`), with Go's rule "invalid octet ⇒
U+FFFD, width 1".
-/
namespace SmtpV.Text
open SmtpV

/-! ### UTF-8 as Go decodes it (`utf8.DecodeRune`) -/

def isCont (b : Byte) : Bool := 0x80 ≤ b.toNat && b.toNat ≤ 0xBF

/-- `(rune, width)`; an invalid or truncated sequence gives `(0xFFFD, 1)`. `none` on empty input. -/
def decodeRune : Bytes → Option (Nat × Nat)
  | [] => none
  | b0 :: t =>
    let x := b0.toNat
    if x < 0x80 then some (x, 1)
    else if x < 0xC2 then some (0xFFFD, 1)
    else if x < 0xE0 then
      match t with
      | b1 :: _ => if isCont b1 then some ((x - 0xC0) * 64 + (b1.toNat - 0x80), 2) else some (0xFFFD, 1)
      | _ => some (0xFFFD, 1)
    else if x < 0xF0 then
      match t with
      | b1 :: b2 :: _ =>
        let lo := if x == 0xE0 then 0xA0 else 0x80
        let hi := if x == 0xED then 0x9F else 0xBF
        if lo ≤ b1.toNat && b1.toNat ≤ hi && isCont b2 then
          some ((x - 0xE0) * 4096 + (b1.toNat - 0x80) * 64 + (b2.toNat - 0x80), 3)
        else some (0xFFFD, 1)
      | _ => some (0xFFFD, 1)
    else if x < 0xF5 then
      match t with
      | b1 :: b2 :: b3 :: _ =>
        let lo := if x == 0xF0 then 0x90 else 0x80
        let hi := if x == 0xF4 then 0x8F else 0xBF
        if lo ≤ b1.toNat && b1.toNat ≤ hi && isCont b2 && isCont b3 then
          some ((x - 0xF0) * 262144 + (b1.toNat - 0x80) * 4096 + (b2.toNat - 0x80) * 64 + (b3.toNat - 0x80), 4)
        else some (0xFFFD, 1)
      | _ => some (0xFFFD, 1)
    else some (0xFFFD, 1)

/-- `utf8.AppendRune` for a scalar value (surrogates and out-of-range give U+FFFD as in Go) -/
def encodeRune (r : Nat) : Bytes :=
  if r < 0x80 then [UInt8.ofNat r]
  else if r < 0x800 then [UInt8.ofNat (0xC0 + r / 64), UInt8.ofNat (0x80 + r % 64)]
  else if (0xD800 ≤ r && r ≤ 0xDFFF) || r > 0x10FFFF then [0xEF, 0xBF, 0xBD]
  else if r < 0x10000 then
    [UInt8.ofNat (0xE0 + r / 4096), UInt8.ofNat (0x80 + (r / 64) % 64), UInt8.ofNat (0x80 + r % 64)]
  else
    [UInt8.ofNat (0xF0 + r / 262144), UInt8.ofNat (0x80 + (r / 4096) % 64),
     UInt8.ofNat (0x80 + (r / 64) % 64), UInt8.ofNat (0x80 + r % 64)]

/-- the runes of `s` as Go's `range` yields them: `(rune, width)` per step -/
def runesAux : Nat → Bytes → List (Nat × Nat)
  | 0, _ => []
  | fuel + 1, s =>
    match decodeRune s with
    | none => []
    | some (r, w) => (r, w) :: runesAux fuel (s.drop w)

def runes (s : Bytes) : List (Nat × Nat) := runesAux s.length s

def isASCII (s : Bytes) : Bool := s.all (fun b => b.toNat < 0x80)

/-! ### case mapping.  Exact for ASCII and for the three non-ASCII runes that map into ASCII
(U+017F ſ → S, U+0131 ı → I; U+212A K folds with k); other runes are left unchanged — the harness
checks on every run that no other rune upper-cases or folds to an ASCII letter. -/

def upperRune (r : Nat) : Nat :=
  if 97 ≤ r && r ≤ 122 then r - 32
  else if r == 0x17F then 83
  else if r == 0x131 then 73
  else r

/-- `strings.ToUpper` -/
def toUpper (s : Bytes) : Bytes :=
  if isASCII s then s.map (fun b => if 97 ≤ b.toNat && b.toNat ≤ 122 then b - 32 else b)
  else (runes s).flatMap (fun (r, _) => encodeRune (upperRune r))

/-- simple case folding class representative (for `strings.EqualFold`) -/
def foldRune (r : Nat) : Nat :=
  if 65 ≤ r && r ≤ 90 then r + 32
  else if r == 0x17F then 115
  else if r == 0x212A then 107
  else r

/-- `strings.EqualFold` -/
def equalFold (a b : Bytes) : Bool :=
  (runes a).map (fun p => foldRune p.1) == (runes b).map (fun p => foldRune p.1)

/-! ### white space (`unicode.IsSpace`) -/

def isSpaceRune (r : Nat) : Bool :=
  r == 0x20 || (0x09 ≤ r && r ≤ 0x0D) || r == 0x85 || r == 0xA0 || r == 0x1680 ||
  (0x2000 ≤ r && r ≤ 0x200A) || r == 0x2028 || r == 0x2029 || r == 0x202F || r == 0x205F || r == 0x3000

/-- `strings.Fields` -/
def fieldsAux : List (Nat × Nat) → Bytes → Bytes → List Bytes → List Bytes
  | [], _, cur, acc => (if cur.isEmpty then acc else cur.reverse :: acc).reverse
  | (r, w) :: rs, s, cur, acc =>
    if isSpaceRune r && !(r == 0xFFFD && w == 1) then
      fieldsAux rs (s.drop w) [] (if cur.isEmpty then acc else cur.reverse :: acc)
    else fieldsAux rs (s.drop w) ((s.take w).reverse ++ cur) acc

def fields (s : Bytes) : List Bytes := fieldsAux (runes s) s [] []

def trimLeftSpace (s : Bytes) : Bytes :=
  let rec go : Nat → Bytes → Bytes
    | 0, s => s
    | fuel + 1, s =>
      match decodeRune s with
      | some (r, w) => if isSpaceRune r then go fuel (s.drop w) else s
      | none => s
  go s.length s

/-- does `s` end with a white-space rune?  returns its width (Go's `DecodeLastRune`: try the last
    1..4 octets as one complete rune, shortest-start first as Go does by scanning back to a start byte) -/
def lastSpaceWidth (s : Bytes) : Nat :=
  let n := s.length
  let try_ (w : Nat) : Bool :=
    if w ≤ n then
      match decodeRune (s.drop (n - w)) with
      | some (r, w') => w' == w && isSpaceRune r
      | none => false
    else false
  if try_ 1 then 1 else if try_ 2 then 2 else if try_ 3 then 3 else 0

def trimRightSpace (s : Bytes) : Bytes :=
  let rec go : Nat → Bytes → Bytes
    | 0, s => s
    | fuel + 1, s =>
      let w := lastSpaceWidth s
      if w == 0 then s else go fuel (s.take (s.length - w))
  go s.length s

/-- `strings.TrimSpace` -/
def trimSpace (s : Bytes) : Bytes := trimRightSpace (trimLeftSpace s)

/-- `strings.TrimRight(s, "\r\n")` -/
def trimRightCRLF (s : Bytes) : Bytes :=
  (s.reverse.dropWhile (fun b => b == CR || b == LF)).reverse

/-! ### searching and splitting -/

def hasPrefix (s p : Bytes) : Bool := p.isPrefixOf s

def hasSuffix (s p : Bytes) : Bool := p.reverse.isPrefixOf s.reverse

def indexByte (s : Bytes) (b : Byte) : Option Nat :=
  let rec go : Bytes → Nat → Option Nat
    | [], _ => none
    | c :: t, i => if c == b then some i else go t (i + 1)
  go s 0

/-- `strings.Split(s, sep)` for a one-octet separator -/
def splitByte (s : Bytes) (sep : Byte) : List Bytes :=
  let rec go : Bytes → Bytes → List Bytes → List Bytes
    | [], cur, acc => (cur.reverse :: acc).reverse
    | c :: t, cur, acc => if c == sep then go t [] (cur.reverse :: acc) else go t (c :: cur) acc
  go s [] []

/-- `strings.Cut(s, sep)` / `SplitN(s, sep, 2)` for a one-octet separator: `(before, after?)` -/
def cutByte (s : Bytes) (sep : Byte) : Bytes × Option Bytes :=
  match indexByte s sep with
  | some i => (s.take i, some (s.drop (i + 1)))
  | none => (s, none)

def containsByte (s : Bytes) (b : Byte) : Bool := s.any (· == b)

/-- `printable` (conn.go): what is quoted from the peer's command in a reply, control octets (other than HT) and DEL replaced by `?` -/
def printable (s : Bytes) : Bytes := s.map (fun b => if (b.toNat < 32 && b != 9) || b == 127 then 63 else b)

/-! ### numbers -/

def isDigit (b : Byte) : Bool := 48 ≤ b.toNat && b.toNat ≤ 57

/-- `strconv.ParseUint(s, 10, bits)`: digits only, non-empty, value < 2^bits -/
def parseUintDec (s : Bytes) (bits : Nat) : Option Nat :=
  if s.isEmpty || !s.all isDigit then none
  else
    -- underscores are not accepted with base 10; leading zeros are
    let v := s.foldl (fun acc b => acc * 10 + (b.toNat - 48)) 0
    if v < 2 ^ bits then some v else none

/-- decimal digits (`strconv.Itoa`, `%d`, `%v` of an integer) -/
def natToDec (n : Nat) : Bytes := (Nat.toDigits 10 n).map (fun c => UInt8.ofNat c.toNat)

def intToDec (i : Int) : Bytes := if i < 0 then 45 :: natToDec i.natAbs else natToDec i.toNat

end SmtpV.Text
