import SmtpV.Basic
/-!
L3: the interleaving semantics of chunked deliveries (conn.go `handleBdat`): the command loop and
one delivery goroutine per transfer, each with the result channel (capacity 1) that was bound to it
when it was started (the repaired code; `buggy := true` reproduces the pinned tree, where the
goroutine looked at `c.dataResult` when it finished).  A schedule is a list of thread choices; a step
that would block is a stutter, so every schedule is an execution.
-/
namespace SmtpV.Chunked

/-- what the command loop does next (derived from the BDAT/RSET commands of a conversation) -/
inductive Op
  | openT            -- first BDAT of a new transfer: make channel, publish it in `cur`, spawn delivery
  | abort            -- RSET / failed chunk: close the pipe with an error
  | last             -- BDAT LAST: close pipe, then receive the verdict and reply
deriving DecidableEq, Repr

inductive G | running | sending | done
deriving DecidableEq, Repr

structure Conf where
  prog    : List Op
  waiting : Option Nat          -- loop is blocked in `<-dataResult` for this transfer
  cur     : Option Nat          -- the cell `c.dataResult` (which transfer's channel it holds)
  nextT   : Nat                 -- number of transfers opened so far
  chans   : List (List Nat)     -- buffer of the channel made for transfer t (capacity 1)
  gs      : List G              -- delivery goroutine of transfer t
  replies : List (Nat × Nat)    -- (transfer, verdict reported to the client)
deriving DecidableEq, Repr

def init (prog : List Op) : Conf :=
  { prog, waiting := none, cur := none, nextT := 0, chans := [], gs := [], replies := [] }

def gStep (buggy : Bool) (res : Nat → Nat) (c : Conf) (t : Nat) : Conf :=
  match c.gs[t]? with
  | some .running => { c with gs := c.gs.set t .sending }       -- backend returned
  | some .sending =>
    let target := if buggy then c.cur.getD t else t
    match c.chans[target]? with
    | some [] => { c with chans := c.chans.set target [res t], gs := c.gs.set t .done }
    | _ => c                                                     -- buffer full: blocked
  | _ => c

def loopStep (c : Conf) : Conf :=
  match c.waiting with
  | some t =>
    match c.chans[t]? with
    | some (v :: rest) =>
      { c with waiting := none, chans := c.chans.set t rest, replies := c.replies ++ [(t, v)] }
    | _ => c                                                     -- blocked in receive
  | none =>
    match c.prog with
    | [] => c
    | .openT :: p =>
      { c with prog := p, cur := some c.nextT, nextT := c.nextT + 1,
               chans := c.chans ++ [[]], gs := c.gs ++ [.running] }
    | .abort :: p => { c with prog := p }
    | .last :: p =>
      match c.cur with
      | some t => { c with prog := p, waiting := some t }
      | none => { c with prog := p }

/-- scheduler choice 0 = command loop, k+1 = delivery goroutine k -/
def step (buggy : Bool) (res : Nat → Nat) (c : Conf) : Nat → Conf
  | 0 => loopStep c
  | k + 1 => gStep buggy res c k

def exec (buggy : Bool) (res : Nat → Nat) (c : Conf) (sched : List Nat) : Conf :=
  sched.foldl (step buggy res) c

/-- the property: every verdict reported for transfer t is the backend's verdict for t -/
def OwnVerdict (res : Nat → Nat) (c : Conf) : Prop := ∀ p ∈ c.replies, p.2 = res p.1

instance (res : Nat → Nat) (c : Conf) : Decidable (OwnVerdict res c) := by
  unfold OwnVerdict; infer_instance

/-- a delivery is stuck: it wants to send but its target channel is full and nobody will ever receive -/
def stuck (buggy : Bool) (c : Conf) (t : Nat) : Bool :=
  c.gs[t]? == some .sending && c.prog.isEmpty && c.waiting.isNone &&
  (match c.chans[if buggy then c.cur.getD t else t]? with | some [] => false | _ => true)

end SmtpV.Chunked
