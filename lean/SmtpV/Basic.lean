/-
Common vocabulary of the model: octet strings, the few octet constants the
protocol cares about, hex transport encoding used by the line protocol.
Core Lean only (the driver is linked as a native executable).
-/
namespace SmtpV

abbrev Byte := UInt8
abbrev Bytes := List UInt8

def CR : Byte := 13
def LF : Byte := 10
def DOT : Byte := 46
def SP : Byte := 32
def HT : Byte := 9

def crlf : Bytes := [CR, LF]

/-- `"abc".b` : the octets of an ASCII/UTF-8 literal. -/
def _root_.String.b (s : String) : Bytes := s.toUTF8.data.toList

/-- distinct literals have distinct octets (lets `simp` decide comparisons of keyword constants) -/
theorem _root_.String.b_inj (s t : String) : s.b = t.b ↔ s = t := by
  constructor
  · intro h
    apply String.toByteArray_inj.mp
    apply ByteArray.ext
    exact Array.toList_inj.mp h
  · rintro rfl; rfl

/-! ### hex transport encoding (lower case), `-` for the empty string -/

def hexDigit (n : Nat) : Char :=
  if n < 10 then Char.ofNat (48 + n) else Char.ofNat (87 + n)

def hexOfBytes (bs : Bytes) : String :=
  if bs.isEmpty then "-" else
  String.ofList (bs.flatMap fun b => [hexDigit (b.toNat / 16), hexDigit (b.toNat % 16)])

def hexVal? (c : Char) : Option Nat :=
  if '0' ≤ c ∧ c ≤ '9' then some (c.toNat - 48)
  else if 'a' ≤ c ∧ c ≤ 'f' then some (c.toNat - 87)
  else if 'A' ≤ c ∧ c ≤ 'F' then some (c.toNat - 55)
  else none

def bytesOfHexAux : List Char → Bytes → Option Bytes
  | [], acc => some acc.reverse
  | a :: b :: t, acc =>
    match hexVal? a, hexVal? b with
    | some x, some y => bytesOfHexAux t (UInt8.ofNat (16 * x + y) :: acc)
    | _, _ => none
  | _, _ => none

def bytesOfHex? (s : String) : Option Bytes :=
  if s = "-" then some [] else bytesOfHexAux s.toList []

def bytesOfHex (s : String) : Bytes := (bytesOfHex? s).getD []

end SmtpV
