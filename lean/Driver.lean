import SmtpV.Basic
import SmtpV.Model.DataReader
import SmtpV.Spec.DataMon
import Driver.Conv
import Driver.Codec
import Driver.ClientGlue
import Driver.Sched
import Driver.E2E
import Driver.CSTLS
/-!
Line-protocol driver: runs the *same definitions the theorems are about* on the case
lines the Go harness receives.  One case per line, one answer per line.
-/
namespace SmtpV.Driver
open SmtpV

def splitTab (s : String) : List String := s.splitOn "\t"

def natOf (s : String) : Nat := s.toNat?.getD 0

def natsOf (s : String) : List Nat :=
  if s = "-" ∨ s = "" then [] else (s.splitOn ",").map natOf

def resName (endErr : Bool) : DataReader.Res → String
  | .more => "more" | .eof => "eof" | .tooLarge => "toolarge"
  | .ueof => if endErr then "src" else "ueof"

/-- `dr  LIMIT|-  STATE0  h(stream)  SEGS|-  SIZES  eof|err` -/
def probeDR (f : List String) : String :=
  match f with
  | [_, lim, st, stream, _segs, sizes, end_] =>
    let r : DataReader.DR :=
      { state := DataReader.St.fromCode (natOf st), limited := lim != "-", n := natOf lim }
    let (outs, rf, rest) := DataReader.readSched r (bytesOfHex stream) (natsOf sizes)
    let parts := outs.map fun (o, res) => hexOfBytes o ++ "/" ++ resName (end_ == "err") res
    -- a backend that reads once more after the end of the message (4-octet buffer): what it gets
    let again := match outs.getLast? with
      | some (_, .eof) =>
        let (_, o2, _, res2) := DataReader.read rf rest 4
        toString o2.length ++ "/" ++ resName (end_ == "err") res2
      | _ => "-"
    String.intercalate "," parts ++ "\t" ++ hexOfBytes rest ++ "\t" ++ toString rf.state.code ++ "\t" ++
      (if rf.limited then toString rf.n else "-") ++ "\tagain=" ++ again
  | _ => "DRIVER-BAD-CASE"

def resOfName (s : String) : DataReader.Res :=
  if s == "more" then .more else if s == "eof" then .eof else if s == "toolarge" then .tooLarge else .ueof

def parseResults (s : String) : List (Bytes × DataReader.Res) :=
  if s == "" then [] else
  (s.splitOn ",").map fun part =>
    match part.splitOn "/" with
    | [h, r] => (bytesOfHex h, resOfName r)
    | _ => ([], .ueof)

/-- `mon dr <case fields> ## <answer fields>`: judge an observation with the DATA monitor -/
def monDR (c a : List String) : String :=
  match c, a with
  | [_, lim, st, stream, _segs, sizes, _end], results :: rest :: _ =>
    if natOf st != 0 then "ok"   -- the monitor speaks about fresh readers only
    else
      let l : Option Nat := if lim == "-" then none else some (natOf lim)
      let bad := Spec.DataMon.check l (bytesOfHex stream) (natsOf sizes) (parseResults results) (bytesOfHex rest) ++
        (match a[4]? with
         | some f =>
           if f == "again=-" || f == "again=0/eof" then []
           else ["C06 a reader that had reported the end of the message returned something else when read once more: " ++ f]
         | none => [])
      if bad.isEmpty then "ok" else "bad: " ++ String.intercalate "; " bad
  | _, _ => "bad: unparsable observation"

def runMon (f : List String) : String :=
  -- f = "mon" :: PID :: case fields ++ ["##"] ++ answer fields
  let pid := (f.drop 1).headD ""
  let body := f.drop 2
  let c := body.takeWhile (· != "##")
  let a := (body.dropWhile (· != "##")).drop 1
  match c.head? with
  | some "dr" => monDR c a
  | some "conv" => Conv.monitor pid c a
  | some "sched" => Conv.monitor pid c a
  | some "lateserve" =>
    (match a with
     | [r] => if r == "returned=1;lclosed=1" then "ok"
              else "bad: C20 Serve on a server that had been (or was being) closed did not return, or left its listener open: " ++ r
     | _ => "bad: unparsable answer")
  | some "tlsclose" =>
    (match a with
     | [r] =>
       (match r.splitOn "=" with
        | ["logouts", v] =>
          if (v.splitOn ",").all (· == "1") then "ok"
          else "bad: C08 a session received a number of Logout calls other than one while the server was ended during a STARTTLS upgrade: " ++ v
        | _ => "bad: unparsable answer")
     | _ => "bad: unparsable answer")
  | some "rt" => Codec.monitorRT c a
  | some "parse" => Codec.monitorParse c a
  | some "cconv" => ClientGlue.monitor pid c a
  | some "e2e" => E2E.monitor pid c a
  | some "cstls" => CSTLS.monitor pid c a
  | some "accept2" => Sched.monitorAccept2 c a
  | _ => "ok"

def runCase (line : String) : String :=
  let f := splitTab line
  match f.head? with
  | some "dr" => probeDR f
  | some "mon" => runMon f
  | some "conv" => Conv.probe f
  | some "xtext" => Codec.probeXtext f
  | some "parse" => Codec.probeParse f
  | some "reply" => Codec.probeReply f
  | some "tosmtperr" => Codec.probeToSMTPErr f
  | some "rt" => Codec.probeRT f
  | some "cconv" => ClientGlue.probe f
  | some "e2e" => E2E.probe f
  | some "cstls" => CSTLS.probe f
  | some "accept" => Sched.probeAccept f
  | some "accept2" => Sched.probeAccept2 f
  | some "sched" => Sched.probeSched f
  -- several connections of one server at once, all fed the same input: each must be answered like a connection of its own
  | some "multi" => "same"
  -- the server is ended while a STARTTLS upgrade logs the plaintext session out: the specification — every session exactly one Logout
  | some "tlsclose" => "logouts=1"
  -- Serve on a server that has been (or is being) closed: it returns and its listener ends up closed
  | some "lateserve" => "returned=1;lclosed=1"
  | some p => "DRIVER-UNKNOWN-PROBE " ++ p
  | none => "DRIVER-EMPTY"

partial def loop (h : IO.FS.Stream) (out : IO.FS.Stream) : IO Unit := do
  let line ← h.getLine
  if line.isEmpty then return ()
  let l := if line.endsWith "\n" then (line.dropEnd 1).toString else line
  if !l.isEmpty then out.putStrLn (runCase l)
  loop h out

end SmtpV.Driver
