import SmtpV.Basic
import SmtpV.Model.DataReader
import SmtpV.Spec.Data
import SmtpV.Spec.DataMon
import SmtpV.Props.C01
import SmtpV.Props.C02
import SmtpV.Props.C06
import SmtpV.Props.C07
