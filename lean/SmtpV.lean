import SmtpV.Basic
import SmtpV.Model.DataReader
