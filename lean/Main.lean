import Driver
def main : IO Unit := do
  SmtpV.Driver.loop (← IO.getStdin) (← IO.getStdout)
